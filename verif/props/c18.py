"""C18 — Staging and deployment never write outside their target directory.

Every case builds a private sandbox under /dev/shm (package, instance, "victim" files that lie outside the target),
lists the WHOLE sandbox physically (verif.oracles.c18_sandbox.snapshot), runs the real staging / deployment code
and lists it again. The property holds iff every entry that was added / removed / modified lies inside the target
directory — whether or not the operation raised.

Parts
  J  Job.stageIn of a real Job of a real instance, one ':extract' reference to an enumerated hostile tar archive
     (fresh package + instance per case).
  S  StageReference(DataReference, WorkingDirectory, graph) called directly on the same archives (fresh
     mini-sandbox per case, the graph of one real instance per worker resolves the absolute reference).
  R  Job.stageIn with enumerated ':copy' / ':link' / ':copyout' reference lists over fixtures that contain links
     (1 and 2 references, basenames forced to collide).
  C  Job.stageIn with a ':link' / ':copy' reference staged before / after an ':extract' of a hostile archive.
  M  ExperimentPackage.expandPackageToDirectory with every enumerated manifest (package = single FlowIR file).
  E  Experiment.experimentFromPackage with the same manifests (the public deployment entry point).
"""
import os
import posixpath
import re
import shutil

from verif.core.runner import HarnessError, canon
from verif.gen import c18_hostile as G
from verif.oracles import c18_sandbox as SB

PROPERTY = 'C18'
LEVEL = 'exploration'
EXHAUSTIVE = True
RULE = ('Archives: every ordered tar archive of 1..2 members (3 in thorough; quick adds the 1/32 slice of the '
        '3-member space selected by VERIF_SEED, driven through StageReference only) over member names {a, d, d/a, ./a, '
        '../x, d/../../x, ../outside-file, <abs path inside the sandbox>, <abs path in a sibling directory whose name '
        'starts with the name of the target>} x member types {file, dir, symlink->{a, .., '
        '../x, <abs dir>}, hardlink->{a, ../outside-file}} (names may repeat, so "link, then write through the link" '
        'and "hard link, then overwrite" patterns are included); each staged by Job.stageIn (1..2 members) and by '
        "StageReference directly. Link chains: every archive of 2..3 (thorough 4) members with distinct names from {a, d, d/a, "
        "a/x} x {file, dir, symlink->{., .., a/.., d/.., d/a/..}} (each link lexically inside, composing on disk) through "
        "StageReference; those that compose to an escape according to the trusting-writer model also through "
        "Job.stageIn. "
        '1-member archives are additionally staged gzip-compressed, from a producer '
        "component's directory and via an absolute-path reference. Reference lists: every list of 1..2 references "
        'from 11 sources (files, directories, links to them, directories containing links, trailing "/", "/." and '
        '"/..") x {copy, link, copyout} (pairs: copy/link in quick). Combos: a link/copy reference of a directory '
        'staged before (1-member archives: also after) an :extract of every 1-member archive (2-member in thorough). Manifests: every '
        'ordered manifest of 1..2 distinct keys (3 in thorough) from {a, a/b, ../x, a/../../x, ./a, <abs>, conf, data, ../<instance dir name>x} x {copy, '
        'link} (1-key: also the default method; also given as a YAML file), deployed by expandPackageToDirectory and by '
        'experimentFromPackage (with data=[big.csv] when a copied folder is deployed as `data`); every source folder '
        'holds a file, a sub-folder, links, and links named like the files deployment writes later (flowir_package.yaml, '
        'dsl.yaml, flowir_instance.yaml, manifest.yaml, big.csv) that point at victim files outside the instance. Nested later-written names: [conf|data from a plain folder x {copy, link}, conf/<definition file> | data/big.csv x {copy, link} from {a precious file of the package, a folder}] in both orders, and the nested entry alone. A case is non-trivial when the staging/deployment operation was actually executed on '
        'it (package and instance could be set up); distinct = distinct (part, archive/refs/manifest, variant).')
ASSUMPTIONS = [
    'the target of staging is the component working directory (…/stages/stageN/<component>); the target of '
    'deployment is the new instance directory; the experiment "shadow" directory that newInstanceDirectory creates '
    'beside it by design (normally /tmp/chpc-<user>-shadow, relocated into the sandbox by the harness) is exempt',
    'observed: names, types, permission bits, sizes, mtimes (ns), link targets and content hashes of every entry of '
    'the sandbox; link counts / ctimes / atimes are not compared, so creating a hard link *inside* the target to an '
    'outside file is not judged by itself, only a later write through it',
    'creating a symbolic link inside the target that merely points outside is not a write outside and is not judged',
    'over-rejection of harmless archives / manifests is not judged (the statement does not require acceptance)',
    'the kind of error is only judged at the public entry points (Job.stageIn, experimentFromPackage) and only for '
    'inputs that lexically designate something outside the target: those must end in an exception of the '
    'experiment.model.errors family; any exception is accepted from the lower-level entry points',
    'experimentFromPackage(data=[...]) is only exercised when `data` is deployed as a copy: replacing a file of a '
    'LINKED data folder changes the link\'s source at the caller\'s own request (grey zone, excluded)',
    'all "outside" victims live inside the per-case scratch sandbox; absolute member names / keys point into it',
    'tar archives are GNU format, plain (and gzip for single members); device/fifo members are not generated',
]

QUICK_SLICES = 32
_FAMILY_PREFIX = 'experiment.model.errors'


# ----------------------------------------------------------------------------------------------------- utilities
class _Shadow:
    """Relocates ExperimentShadowDirectory.temporaryShadow (hard-wired to /tmp/chpc-<user>-shadow) into the sandbox."""

    def __init__(self, root):
        self.root = root

    def __enter__(self):
        import experiment.model.storage as st
        self.st = st
        self.orig = st.ExperimentShadowDirectory.__dict__['temporaryShadow']
        loc = os.path.join(self.root, 'shadow')
        os.makedirs(loc, exist_ok=True)

        def temporary_shadow(name):
            return st.ExperimentShadowDirectory(name, loc)

        st.ExperimentShadowDirectory.temporaryShadow = staticmethod(temporary_shadow)
        return self

    def __exit__(self, *a):
        self.st.ExperimentShadowDirectory.temporaryShadow = self.orig


_RUN_DIR = None      # per-run scratch parent (set in workers); removed by run() whatever happens to the workers


def _scratch(prefix='c18-'):
    """Like verif.gen.pkg.scratch_dir, but inside the per-run scratch parent when there is one."""
    import contextlib
    import tempfile
    from verif.gen.pkg import scratch_root

    @contextlib.contextmanager
    def cm():
        d = tempfile.mkdtemp(prefix=prefix, dir=_RUN_DIR or scratch_root())
        cwd = os.getcwd()
        try:
            yield d
        finally:
            try:
                os.chdir(cwd)
            except OSError:
                os.chdir('/')
            shutil.rmtree(d, ignore_errors=True)
    return cm()


MOAT = ('m',) * 6


def _moat(top):
    """Everything a case touches lives six directory levels below the scratch directory `top`: hostile names climb
    with '..' and through links (at most four levels with three members of the alphabets), and attributes are
    applied through links, so the sandbox keeps a moat between its content and /dev/shm. Returns the inner root."""
    root = os.path.join(top, *MOAT)
    os.makedirs(root)
    return root


def _moat_guard(case, before, after):
    """An escape that climbs to within three levels of the scratch directory is a harness emergency, not a verdict."""
    for c in SB.diff(before, after):
        if c['path'] == '.' or c['path'].count('/') < 2:
            raise HarnessError('case %r reached the top of its scratch sandbox: %r' % (case, SB.brief([c])))


def _family(exc):
    return type(exc).__module__.startswith(_FAMILY_PREFIX)


def _write(path, content):
    os.makedirs(os.path.dirname(path), exist_ok=True)
    with open(path, 'wb' if isinstance(content, bytes) else 'w') as f:
        f.write(content)


_STAMP_RE = re.compile(r'-\d{4}-\d{2}-\d{2}T\d{6}\.\d+\.instance')
_SCRATCH_RE = re.compile(r'/[^"\s]*?/c18-(g-)?[A-Za-z0-9_]{6,10}(/case)?')


def _stable(brief_changes):
    """The change list with time stamps of instance names and scratch directory names masked (replays of a case
    must give the same text)."""
    import json
    text = canon(brief_changes)
    text = _STAMP_RE.sub('-<stamp>.instance', text)
    text = _SCRATCH_RE.sub('<sandbox>', text)
    return json.loads(text)


def _judge(col, case, part, op, root, before, after, allowed, exc, features, reach, judge_family, target_desc,
           parent_mtime_ok=()):
    """features: hostile features of the case ('' = harmless by its names); reach: the trusting-writer model's
    prediction, used only to tell whether an escape is explained by those features."""
    if features != case_features(case):
        raise HarnessError('features of %r: %r at run time, %r from the case' % (case, features, case_features(case)))
    changes = SB.diff(before, after)
    out = SB.outside(changes, allowed, parent_mtime_ok)
    exc_name = type(exc).__name__ if exc is not None else None
    hostile = ':hostile-input' if features else ''
    if out:
        paths = [posixpath.normpath(posixpath.join(root, c['path'])) for c in out]
        ok = bool(features) and reach.explains(paths)
        shape = SB.shape(out)
        # (both manifest drivers exercise the same deployment code: their failures share one class per shape)
        where = 'ME:deploy' if part in ('M', 'E') else '%s:%s' % (part, op)
        sig = '%s:%s:%s:%s' % (where, shape, features or '-', 'explained' if ok else 'UNEXPLAINED')
        why = ('%s changed entries outside %s (%s): %s' %
               (op, target_desc, 'and raised %s' % exc_name if exc_name else 'and returned normally',
                canon(_stable(SB.brief(out, 6)))))
        _fail(col, case, why, {'outside': _stable(SB.brief(out)), 'exception': exc_name, 'features': features,
                               'explained_by_model': ok, 'shape': shape}, sig)
        return
    if exc is None:
        col.outcome('%s:%s:done-confined%s' % (part, op, hostile))
    elif _family(exc):
        col.outcome('%s:%s:rejected:%s%s' % (part, op, exc_name, hostile))
    elif judge_family and set(features) & set('NASH'):
        # (feature L alone is not a *lexical* designation of something outside: kind of error not judged)
        sig = '%s:%s:foreign-exception:%s:%s' % (part, op, features, exc_name)
        _fail(col, case, '%s rejected an input that designates something outside %s with %s (%s), which is not a '
                         'staging / packaging error of experiment.model.errors' % (op, target_desc, exc_name, str(exc)[:200]),
              {'outside': [], 'exception': exc_name, 'features': features, 'explained_by_model': True,
               'shape': 'foreign-exception'}, sig)
    else:
        col.outcome('%s:%s:error-not-judged:%s%s' % (part, op, exc_name, hostile))


def _fail(col, case, why, observed, sig):
    """Every failing case is counted (outcomes, n_failures). A case that a known finding explains is handed to the
    runner as it is (the runner attributes and counts it). Of the unattributed ones only one representative per
    class (sig) and work item is listed (run() keeps the simplest one per class): hostile alphabets make thousands
    of cases fail for the same reason and the runner lists at most 400 unattributed failures."""
    col.outcome('FAIL:' + sig)
    col.count('failing_cases_total')
    classifier = getattr(col, 'classifier', None)
    if classifier is not None and classifier({'case': case, 'why': why, 'observed': observed, 'sig': sig}) is not None:
        col.fail(case, why, observed, sig=sig)
        return
    seen = col.__dict__.setdefault('_c18_seen', set())
    if sig not in seen:
        seen.add(sig)
        col.fail(case, why, observed, sig=sig)
    else:
        col.n_failures += 1       # counted as a failing case; its class already has a representative


def _check_builder(real_members, data):
    got = G.read_back(data)
    want = [(m['name'].rstrip('/') if m['kind'] == 'dir' else m['name'], m['kind'], m['link']) for m in real_members]
    if got != want:
        raise HarnessError('tar builder self-check failed: wanted %r, archive holds %r' % (want, got))


# ------------------------------------------------------------------------------ staging through a real Job (J, R, C)
def _build_stage_package(S, abs_dir, refs, archive, producer):
    """Writes S/pkg/p.package; returns its path."""
    import yaml
    pp = os.path.join(S, 'pkg', 'p.package')
    comps = []
    if producer:
        comps.append({'name': 'prod', 'stage': 0, 'command': {'executable': 'ls'}})
    comps.append({'name': 'c', 'stage': 0, 'command': {'executable': 'ls'}, 'references': list(refs)})
    _write(os.path.join(pp, 'conf', 'flowir_package.yaml'), yaml.safe_dump({'components': comps}, sort_keys=False))
    _write(os.path.join(pp, 'data', 'f'), 'data-f\n')
    _write(os.path.join(pp, 'data', 'd', 'f'), 'data-d-f\n')
    _write(os.path.join(pp, 'bin', 'f'), 'bin-f-different\n')
    _write(os.path.join(pp, 'bin', 'd', 'g'), 'bin-d-g\n')
    os.symlink('f', os.path.join(pp, 'data', 'lf'))
    os.symlink('d', os.path.join(pp, 'data', 'ld'))
    os.symlink('..', os.path.join(pp, 'data', 'd', 'l'))
    os.symlink(abs_dir, os.path.join(pp, 'data', 'd', 'labs'))
    os.symlink('nowhere', os.path.join(pp, 'data', 'd', 'dangling'))
    if archive is not None and not producer:
        _write(os.path.join(pp, 'data', archive[0]), archive[1])
    return pp


def staging_order(refs):
    """Job.stageIn stages the references in list order, but ':copyout' references after all the others."""
    return [r for r in refs if not r.endswith(':copyout')] + [r for r in refs if r.endswith(':copyout')]


def _refs_model(refs, wd, inst, archive_members, abs_dir, stage_dir):
    """Features and reach of a whole reference list. Link references create links in the working directory; a
    later copy / extraction that goes through such a link lands outside it (feature L)."""
    reach = SB.Reach(wd)
    features = set()
    links = []          # (path of the link in wd, its target) in staging order
    dirs, files = [], []
    flags = {'dangling_hardlink': False}
    for r in staging_order(refs):
        src, method = r.rsplit(':', 1)
        name = os.path.split(src)[1]
        real_src = os.path.realpath(src if src.startswith('/') else os.path.join(inst, src))
        if method == 'link':
            if name not in ('', '.', '..'):
                links.append((posixpath.join(wd, name), real_src))
        elif method == 'extract':
            members = archive_members           # already realised (absolute paths substituted)
            staged = [os.path.relpath(lp, wd) for lp, _ in links]
            features |= set(SB.archive_features(members, staged))
            r2, flags = SB.simulate_archive(members, wd,
                                            existing_files=[posixpath.join(stage_dir, 'outside-file')] + files,
                                            existing_dirs=[abs_dir] + dirs + [t for _, t in links if os.path.isdir(t)],
                                            existing_links=links)
            for p, sub in r2.paths.items():
                reach.touch(p, sub)
        elif method in ('copy', 'copyout'):
            hit = False
            for lp, lt in links:
                if posixpath.join(wd, name) == lp:
                    hit = True
                    features.add('L')
                    reach.touch_with_parent(lt, True)
            if not hit and name not in ('', '.', '..'):
                (dirs if os.path.isdir(real_src) else files).append(posixpath.join(wd, name))
    return ''.join(sorted(features)), reach, flags


def run_job_case(col, case):
    """case: {'part': J|R|C, 'refs': [...], 'archive': [members]|None, 'compress': ''|'gz', 'via': data|producer|abs}"""
    import experiment.model.data
    import experiment.model.storage
    part = case['part']
    col.evaluated()
    with _scratch() as TOP:
        S = _moat(TOP)
        abs_dir = os.path.join(S, 'victim')
        _write(os.path.join(abs_dir, 'keep'), 'victim-keep\n')
        via = case.get('via', 'data')
        members = case.get('archive')
        arch_name = 'arch.tar' + ('.gz' if case.get('compress') else '')
        placeholder = (arch_name, b'placeholder, replaced once the working directory is known') if members is not None else None
        refs = []
        for r in case['refs']:
            if r == '@ARCHIVE@':
                if via == 'data':
                    r = 'data/%s:extract' % arch_name
                elif via == 'producer':
                    r = 'stage0.prod/%s:extract' % arch_name
                else:
                    r = '%s:extract' % os.path.join(S, 'src', arch_name)
            refs.append(r)
        if via == 'abs' and placeholder:
            _write(os.path.join(S, 'src', arch_name), placeholder[1])
        with _Shadow(S):
            try:
                pp = _build_stage_package(S, abs_dir, refs, placeholder, via == 'producer')
                os.makedirs(os.path.join(S, 'run'))
                pkg = experiment.model.storage.ExperimentPackage.packageFromLocation(pp)
                exp = experiment.model.data.Experiment.experimentFromPackage(pkg, location=os.path.join(S, 'run'))
                jobs = {j.name: j for j in next(exp.stages()).jobs()}
                job = jobs['c']
                inst = exp.instanceDirectory.location
                wd = job.workingDirectory.path
                prod_wd = jobs['prod'].workingDirectory.path if via == 'producer' else None
            except Exception as e:
                col.outcome('%s:setup-rejected:%s' % (part, type(e).__name__))
                return
            if not (os.path.isdir(wd) and os.path.realpath(wd) == wd and wd.startswith(S + os.sep)):
                raise HarnessError('unexpected working directory %r' % wd)
            stage_dir = os.path.dirname(wd)
            _write(os.path.join(stage_dir, 'outside-file'), 'outside-file-original-content\n')
            real_members = []
            if members is not None:
                real_members = G.realise(members, abs_dir, wd)
                data = G.build_tar(real_members, compress=case.get('compress', ''))
                _check_builder(real_members, data)
                where = {'data': os.path.join(inst, 'data'), 'producer': prod_wd, 'abs': os.path.join(S, 'src')}[via]
                _write(os.path.join(where, arch_name), data)
            wd_rel = os.path.relpath(wd, TOP)
            features, reach, flags = _refs_model(refs, wd, inst, real_members, abs_dir, stage_dir)
            col.nontriv(case)
            before = SB.snapshot(TOP)
            exc = None
            try:
                job.stageIn()
            except Exception as e:
                exc = e
            after = SB.snapshot(TOP)
        _moat_guard(case, before, after)
        # an archive with a dangling hard link is malformed whatever its names are: the kind of error is not judged
        _judge(col, case, part, 'stageIn', TOP, before, after, [wd_rel], exc, features, reach,
               not flags['dangling_hardlink'], 'the component working directory')


# ---------------------------------------------------------------------------- StageReference called directly (S)
class _Graph:
    """One real instance per worker process; its WorkflowGraph resolves the absolute-path references."""
    exp = None
    holder = None

    @classmethod
    def get(cls):
        if cls.exp is None:
            import atexit
            import tempfile
            import experiment.model.data
            import experiment.model.storage
            from verif.gen.pkg import scratch_root
            d = tempfile.mkdtemp(prefix='c18-g-', dir=_RUN_DIR or scratch_root())
            cls.holder = d
            atexit.register(shutil.rmtree, d, True)
            try:
                with _Shadow(d):
                    pp = _build_stage_package(d, os.path.join(d, 'victim'), [], None, False)
                    os.makedirs(os.path.join(d, 'run'))
                    pkg = experiment.model.storage.ExperimentPackage.packageFromLocation(pp)
                    cls.exp = experiment.model.data.Experiment.experimentFromPackage(pkg, location=os.path.join(d, 'run'))
            except Exception as e:
                raise HarnessError('cannot build the resolver instance for part S: %r' % (e,))
        return cls.exp.experimentGraph, cls.holder

    @classmethod
    def drop(cls):
        if cls.holder:
            shutil.rmtree(cls.holder, ignore_errors=True)
        cls.exp = cls.holder = None


def run_stageref_case(col, case, graph, base):
    """case: {'part': 'S', 'archive': [members]}"""
    import experiment.model.data
    import experiment.model.graph
    import experiment.model.storage
    col.evaluated()
    k = os.path.join(base, 'case')
    if os.path.lexists(k):
        shutil.rmtree(k)
    around = sorted(os.listdir(base))
    try:
        root = _moat(k)
        abs_dir = os.path.join(root, 'victim')
        _write(os.path.join(abs_dir, 'keep'), 'victim-keep\n')
        # same depth as a real instance: three '..' hops above the stage directory stay inside the sandbox
        stage_dir = os.path.join(root, 'run', 'inst', 'stages', 'stage0')
        wd = os.path.join(stage_dir, 'wd')
        os.makedirs(wd)
        _write(os.path.join(stage_dir, 'outside-file'), 'outside-file-original-content\n')
        members = case['archive']
        real_members = G.realise(members, abs_dir, wd)
        data = G.build_tar(real_members)
        if len(members) == 1:
            _check_builder(real_members, data)
        arch = os.path.join(root, 'src', 'arch.tar')
        _write(arch, data)
        try:
            ref = experiment.model.graph.DataReference('%s:extract' % arch, stageIndex=0)
            loc = experiment.model.storage.WorkingDirectory(wd)
        except Exception as e:
            raise HarnessError('cannot build DataReference/WorkingDirectory: %r' % (e,))
        reach, _ = SB.simulate_archive(real_members, wd, existing_files=[os.path.join(stage_dir, 'outside-file')],
                                       existing_dirs=[abs_dir])
        features = SB.archive_features(real_members)
        col.nontriv(case)
        before = SB.snapshot(k)
        exc = None
        try:
            experiment.model.data.StageReference(ref, loc, graph)
        except Exception as e:
            exc = e
        after = SB.snapshot(k)
        if sorted(os.listdir(base)) != sorted(around + ['case']):
            raise HarnessError('case %r reached beyond its mini-sandbox: %r' % (case, sorted(os.listdir(base))))
        _moat_guard(case, before, after)
        _judge(col, case, 'S', 'StageReference', k, before, after, [os.path.relpath(wd, k)], exc, features, reach,
               False, 'the staging location')
    finally:
        shutil.rmtree(k, ignore_errors=True)


# ---------------------------------------------------------------------------------------------- manifests (M, E)
_INST_RE = re.compile(r'^work/flow(-[0-9T.\-]+)?\.instance(/|$)')


def _key(key, abs_dir):
    """A manifest key with its placeholders replaced (the instance directory is always <work>/flow[-stamp].instance)."""
    return G.subst(key, abs_dir).replace(G.INSTNAME, 'flow.instance')


def run_manifest_case(col, case):
    """case: {'part': M|E, 'manifest': [[key, method, src index], ...], 'as_file': bool}"""
    import yaml
    import experiment.model.data
    import experiment.model.storage
    part = case['part']
    col.evaluated()
    with _scratch() as TOP:
        S = _moat(TOP)
        rel = os.path.relpath(S, TOP)
        abs_dir = os.path.join(S, 'victim')
        _write(os.path.join(abs_dir, 'keep'), 'victim-keep\n')
        _write(os.path.join(abs_dir, 'sub', 'keep'), 'victim-sub-keep\n')
        flow_text = yaml.safe_dump({'components': [{'name': 'c', 'stage': 0, 'command': {'executable': 'ls'}}]})
        for name in G.LATER_WRITTEN:
            # victims with harmless content (a copy of them may legitimately end up in <instance>/conf or /data)
            _write(os.path.join(abs_dir, 'later', name),
                   'victim,%s\n' % name if name.endswith('.csv') else
                   ('# victim\n{}\n' if name == 'manifest.yaml' else '# victim\n' + flow_text))
        new_data = os.path.join(S, 'extra', 'big.csv')
        _write(new_data, 'replacement,data\n')
        pkg_dir = os.path.join(S, 'pkg')
        for i in range(len(case['manifest'])):
            sd = os.path.join(pkg_dir, 'src%d' % i)
            _write(os.path.join(sd, 'f'), 'source-%d-f\n' % i)
            os.makedirs(os.path.join(sd, 'sub'))
            _write(os.path.join(sd, 'sub', 'g'), 'source-%d-g\n' % i)
            # (no link to a parent directory here: deployment copies manifest sources with links followed, a loop
            #  would only make every copy fail with ELOOP)
            os.symlink('f', os.path.join(sd, 'lf'))
            os.symlink(os.path.join(abs_dir, 'sub'), os.path.join(sd, 'labs'))
            # links named like the files that deployment writes into conf/ and data/ after applying the manifest
            for name in G.LATER_WRITTEN:
                os.symlink(os.path.join(abs_dir, 'later', name), os.path.join(sd, name))
        # sources of the "nested later-written name" stratum: a plain folder and a precious file of the package
        _write(os.path.join(pkg_dir, 'plain', 'keep.txt'), 'plain-keep\n')
        _write(os.path.join(pkg_dir, 'vfile.txt'), 'precious-file-of-the-package\n')
        tokens = {'plain': 'plain', 'vfile': 'vfile.txt', 'missing': 'missing.txt'}
        flow = os.path.join(pkg_dir, 'flow.yaml')
        _write(flow, flow_text)
        work = os.path.join(S, 'work')
        os.makedirs(work)
        _write(os.path.join(work, 'outside-file'), 'outside-file-original-content\n')
        man = {}
        per_entry_source = []
        for key, method, si in case['manifest']:
            src_rel = tokens[si] if isinstance(si, str) else 'src%d' % si
            per_entry_source.append(os.path.join(pkg_dir, src_rel))
            man[_key(key, abs_dir)] = src_rel + (':%s' % method if method else '')
        if len(man) != len(case['manifest']):
            raise HarnessError('manifest keys collide: %r' % (case['manifest'],))
        manifest_arg = man
        if case.get('as_file'):
            manifest_arg = os.path.join(pkg_dir, 'manifest.yaml')
            _write(manifest_arg, yaml.safe_dump(man, sort_keys=False))
        entries = [(_key(k, abs_dir), m or 'copy', i) for i, (k, m, _) in enumerate(case['manifest'])]
        # a key that refers to the instance directory's own name needs a predictable name: no time stamp then
        stamp = not any(G.INSTNAME in k for k, _, _ in case['manifest'])
        features = SB.manifest_features(entries)
        # a data file is replaced (data=[...]) when the manifest deploys a COPY of a folder as `data`; with a linked
        # data folder the replacement lands in the link's source by the user's own request (not judged: not passed)
        data_arg = [new_data] if any(posixpath.normpath(k) == 'data' and m == 'copy' for k, m, _ in entries) else None
        col.nontriv(case)
        with _Shadow(S):
            before = SB.snapshot(TOP)
            exc = None
            inst = os.path.join(work, 'flow.instance')
            try:
                pkg = experiment.model.storage.ExperimentPackage.packageFromLocation(flow, manifest=manifest_arg)
                if part == 'M':
                    pkg.expandPackageToDirectory(inst, pkg.configuration.file_format)
                else:
                    exp = experiment.model.data.Experiment.experimentFromPackage(pkg, location=work, data=data_arg,
                                                                                 timestamp=stamp)
                    inst = exp.instanceDirectory.location
            except Exception as e:
                exc = e
            after = SB.snapshot(TOP)
        _moat_guard(case, before, after)
        if part == 'E' and exc is not None:
            # the instance directory name carries a time stamp: find it
            names = [n for n in os.listdir(work) if n.endswith('.instance')]
            inst = os.path.join(work, names[0]) if len(names) == 1 else os.path.join(work, 'flow.instance')
        reach = SB.manifest_targets(entries, inst, per_entry_source)
        allowed = [lambda p: p.startswith(rel + '/') and bool(_INST_RE.match(p[len(rel) + 1:])), rel + '/shadow']
        op = 'expandPackageToDirectory' if part == 'M' else 'experimentFromPackage'
        _judge(col, case, part, op, TOP, before, after, allowed, exc, features, reach, part == 'E',
               'the new instance directory', parent_mtime_ok=(rel + '/work',))


# ------------------------------------------------------------------------------------------------- enumeration
def _archive_case(part, members, **kw):
    c = {'part': part, 'archive': members}
    if part != 'S':
        c['refs'] = ['@ARCHIVE@']
    c.update(kw)
    return c


def job_cases(thorough):
    """All cases that need a fresh package+instance (parts J, R, C), simplest first."""
    for n in (1, 2):
        for members in G.archives(n):
            yield _archive_case('J', members)
    for members in G.archives(1):
        yield _archive_case('J', members, compress='gz')
        yield _archive_case('J', members, via='producer')
        yield _archive_case('J', members, via='abs')
    for refs in G.ref_lists(1, G.REF_METHODS):
        yield {'part': 'R', 'refs': refs, 'archive': None}
    for refs in G.ref_lists(2, G.REF_METHODS if thorough else ['copy', 'link']):
        yield {'part': 'R', 'refs': refs, 'archive': None}
    for n in (1, 2) if thorough else (1,):
        for members in G.archives(n):
            for pre in G.COMBO_PRE:
                yield {'part': 'C', 'refs': pre + ['@ARCHIVE@'], 'archive': members}
                if n == 1:
                    yield {'part': 'C', 'refs': ['@ARCHIVE@'] + pre, 'archive': members}


_JOB_CASES = {}


def job_case_list(thorough):
    """Memoised list(job_cases()); run() fills it before forking so that the workers inherit it."""
    if thorough not in _JOB_CASES:
        _JOB_CASES[thorough] = list(job_cases(thorough))
    return _JOB_CASES[thorough]


def manifest_cases(thorough):
    for part in ('M', 'E'):
        for m in G.manifests(1, with_default_method=True):
            yield {'part': part, 'manifest': m, 'as_file': False}
        for m in G.manifests(1):
            yield {'part': part, 'manifest': m, 'as_file': True}
        for m in G.nested_later_manifests():
            yield {'part': part, 'manifest': m, 'as_file': False}
        for n in (2, 3) if thorough else (2,):
            for m in G.manifests(n):
                yield {'part': part, 'manifest': m, 'as_file': False}


def worker_job(col, item, tier, seed):
    global _RUN_DIR
    lo, hi, known, _RUN_DIR = item
    col.__dict__['_c18_seen'] = set(known)
    cases = job_case_list(tier == 'thorough')[lo:hi]
    for c in cases:
        run_job_case(col, c)
    if cases and lo % 7 == 0:
        col.sample(cases[0])


def worker_job_chain(col, item, tier, seed):
    """Job.stageIn on the link-chain archives whose links compose to an escape (feature K of the model)."""
    global _RUN_DIR
    n, lo, hi, known, _RUN_DIR = item
    col.__dict__['_c18_seen'] = set(known)
    for idx in range(lo, hi):
        members = G.chain_archive_by_index(n, idx)
        if sum(1 for m in members if m['kind'] == 'sym') >= 2 and SB.archive_features(members) == 'K':
            run_job_case(col, _archive_case('J', members))


def worker_manifest(col, item, tier, seed):
    global _RUN_DIR
    lo, hi, known, _RUN_DIR = item
    col.__dict__['_c18_seen'] = set(known)
    cases = list(manifest_cases(tier == 'thorough'))[lo:hi]
    for c in cases:
        run_manifest_case(col, c)
    if cases and lo % 5 == 0:
        col.sample(cases[-1])


def worker_stageref(col, item, tier, seed):
    global _RUN_DIR
    n, lo, hi, step, offset, known, _RUN_DIR = item
    col.__dict__['_c18_seen'] = set(known)
    graph, base = _Graph.get()
    try:
        for i in range(lo, hi):
            idx = i * step + offset
            if isinstance(n, str):
                # 'chain<k>' = every archive of k distinct-name members of the link-chain alphabet;
                # 'chain<k>K' = only those whose links compose to an escape (feature K of the model)
                members = G.chain_archive_by_index(int(n[5]), idx)
                if n.endswith('K') and SB.archive_features(members) != 'K':
                    continue
            else:
                members = G.archive_by_index(n, idx)
            run_stageref_case(col, {'part': 'S', 'archive': members}, graph, base)
    finally:
        _Graph.drop()


def _chunks(total, size):
    return [(i, min(total, i + size)) for i in range(0, total, size)]


def _case_size(case):
    return len(case.get('archive') or []) + len(case.get('refs') or []) + len(case.get('manifest') or [])


def _compress(ctx):
    """Keep the simplest representative of every class (sig) of unattributed failures; counts are not touched."""
    best = {}
    for f in ctx.failures:
        key = (_case_size(f['case']), canon(f['case']))
        if f['sig'] not in best or key < best[f['sig']][0]:
            best[f['sig']] = (key, f)
    if len(ctx.failures) >= ctx.MAX_FAIL:
        ctx.note('CAP: a batch produced more failure classes than the runner lists (%d)' % ctx.MAX_FAIL)
    ctx.failures = [best[k][1] for k in sorted(best)]


def _pmap_batched(ctx, fn, items, run_dir, first=8, later=48):
    """Work items are run in batches; every batch is told which failure classes already have a representative, so
    that the thousands of cases failing for an already recorded reason are only counted (outcomes), not listed."""
    pos = 0
    size = first
    while pos < len(items):
        known = sorted(f['sig'] for f in ctx.failures)
        ctx.pmap('verif.props.c18', fn, [it + (known, run_dir) for it in items[pos:pos + size]])
        _compress(ctx)
        pos += size
        size = later


def run(ctx):
    global _RUN_DIR
    with _scratch('c18-run-') as run_dir:
        try:
            _run(ctx, run_dir)
        finally:
            _RUN_DIR = None


def _run(ctx, run_dir):
    thorough = ctx.thorough
    n_job = len(job_case_list(thorough))
    ctx.count('job_stagein_cases', n_job)
    _pmap_batched(ctx, 'worker_job', _chunks(n_job, 40), run_dir)
    items = []
    for n in (2, 3, 4) if thorough else (2, 3):
        items += [(n, lo, hi) for lo, hi in _chunks(G.n_chain_archives(n), 512)]
    _pmap_batched(ctx, 'worker_job_chain', items, run_dir)
    n_man = sum(1 for _ in manifest_cases(thorough))
    ctx.count('manifest_cases', n_man)
    _pmap_batched(ctx, 'worker_manifest', _chunks(n_man, 16), run_dir)
    items = []
    n_s = 0
    for n in (1, 2):
        tot = G.n_archives(n)
        n_s += tot
        items += [(n, lo, hi, 1, 0) for lo, hi in _chunks(tot, 256)]
    tot3 = G.n_archives(3)
    if thorough:
        n_s += tot3
        items += [(3, lo, hi, 1, 0) for lo, hi in _chunks(tot3, 2048)]
    else:
        # the seed selects which 1/32 of the 3-member space is added to the fixed core (thorough covers all of it)
        per = tot3 // QUICK_SLICES
        n_s += per
        items += [(3, lo, hi, QUICK_SLICES, ctx.seed % QUICK_SLICES) for lo, hi in _chunks(per, 512)]
        ctx.count('three_member_slice_size', per)
    for n in (2, 3):
        tot = G.n_chain_archives(n)
        n_s += tot
        items += [('chain%d' % n, lo, hi, 1, 0) for lo, hi in _chunks(tot, 512)]
    tot4 = G.n_chain_archives(4)
    if thorough:
        n_s += tot4
        items += [('chain4', lo, hi, 1, 0) for lo, hi in _chunks(tot4, 2048)]
    ctx.count('stagereference_cases_enumerated', n_s)
    _pmap_batched(ctx, 'worker_stageref', items, run_dir)
    ctx.sample({'part': 'S', 'archive': G.archive_by_index(2, 1234)})
    for f in ctx.failures:
        f['observed']['failing_cases_in_class'] = ctx.outcomes.get('FAIL:' + f['sig'], 0)
    ctx.count('unattributed_failure_classes', len(ctx.failures))


def replay(ctx, case):
    part = case['part']
    if part in ('J', 'R', 'C'):
        run_job_case(ctx, case)
    elif part == 'S':
        graph, base = _Graph.get()
        try:
            run_stageref_case(ctx, case, graph, base)
        finally:
            _Graph.drop()
    elif part in ('M', 'E'):
        run_manifest_case(ctx, case)
    else:
        raise HarnessError('unknown part %r' % (part,))


# ------------------------------------------------------------------------------------------------ known findings
_ESCAPE_SHAPES = ('created', 'content', 'attrs', 'dir-mtime')


def case_features(case):
    """The hostile features of a case computed from the case alone (same letters as the oracle module)."""
    part = case.get('part')
    if part in ('M', 'E'):
        return SB.manifest_features([(_key(k, '/ABS'), m or 'copy') for k, m, _ in case['manifest']])
    members = G.realise(case.get('archive') or [], '/ABS', '/WD')
    if part == 'S':
        return SB.archive_features(members)
    feats = set()
    links = []
    for r in staging_order(case.get('refs') or []):
        if r == '@ARCHIVE@':
            feats |= set(SB.archive_features(members, links))
            continue
        src, method = r.rsplit(':', 1)
        name = os.path.split(src)[1]
        if method == 'link':
            if name not in ('', '.', '..'):
                links.append(name)
        elif method in ('copy', 'copyout') and name in links:
            feats.add('L')
    return ''.join(sorted(feats))


def _explained_escape(f, parts):
    """Common part of every selector: the failure is an escape (not a wrong kind of error) observed in one of
    `parts`, every changed outside entry is a location that the hostile names / link targets of the case designate
    (trusting-writer model), and the features recorded with the observation are those of the case."""
    o = f.get('observed') or {}
    case = f.get('case') or {}
    if case.get('part') not in parts or o.get('shape') not in _ESCAPE_SHAPES:
        return None
    if o.get('explained_by_model') is not True or not f['sig'].endswith(':explained'):
        return None
    feats = case_features(case)
    if feats != o.get('features') or 'A' in feats:
        return None
    return feats


def _sel_extract_dotdot(f):
    feats = _explained_escape(f, ('J', 'S', 'C'))
    return feats is not None and 'N' in feats


def _sel_extract_links(f):
    feats = _explained_escape(f, ('J', 'S', 'C'))
    return feats is not None and 'N' not in feats and ('S' in feats or 'H' in feats)


def _sel_staged_link(f):
    return _explained_escape(f, ('C', 'R')) == 'L'


def _sel_manifest_dotdot(f):
    feats = _explained_escape(f, ('M', 'E'))
    return feats is not None and 'N' in feats


def _sel_manifest_linked_key(f):
    return _explained_escape(f, ('M', 'E')) == 'L'


KNOWN_SELECTORS = {
    'extract_dotdot_member_name': _sel_extract_dotdot,
    'extract_link_members_not_inspected': _sel_extract_links,
    'staging_through_previously_staged_link': _sel_staged_link,
    'manifest_dotdot_key': _sel_manifest_dotdot,
    'manifest_key_through_linked_key': _sel_manifest_linked_key,
}


def _sel_manifest_conf_linked(f):
    """The key `conf` deployed with method link (no other hostile feature in the manifest), and the only entries
    changed outside the instance directory are the definition files that deployment writes into conf/ (plus the
    modification time of the folder the link points to)."""
    if _explained_escape(f, ('M', 'E')) != 'C':
        return False
    if not any(posixpath.normpath(k) == 'conf' and m == 'link' for k, m, _ in f['case']['manifest']):
        return False
    for c in (f.get('observed') or {}).get('outside') or []:
        path = c.get('path', '')
        base = posixpath.basename(path)
        is_src = re.search(r'/pkg/src\d+$', path) is not None
        if is_src and c.get('change') == 'modified' and c.get('fields') == ['mtime_ns']:
            continue
        if base in SB.DEPLOY_CONF_FILES and re.search(r'/pkg/src\d+/[^/]+$', path) and c.get('change') in ('added', 'modified'):
            continue
        return False
    return True


KNOWN_SELECTORS['manifest_conf_key_linked'] = _sel_manifest_conf_linked


def _sel_manifest_nested_later_link(f):
    """A link-method manifest entry conf/<definition file> or data/<replaced data file> (no other hostile feature),
    and the only thing changed outside the instance directory is the file that this entry links to."""
    if _explained_escape(f, ('M', 'E')) != 'F':
        return False
    linked = []
    for k, m, src in f['case']['manifest']:
        parts = posixpath.normpath(k).split('/')
        if m == 'link' and len(parts) == 2 and parts[1] in SB.LATER_WRITTEN_IN.get(parts[0], ()):
            linked.append(src)
    if not linked:
        return False
    for c in (f.get('observed') or {}).get('outside') or []:
        path, change = c.get('path', ''), c.get('change')
        if change == 'modified' and 'vfile' in linked and path.endswith('/pkg/vfile.txt'):
            continue                    # the linked file was overwritten
        if 'missing' in linked and ((change == 'added' and path.endswith('/pkg/missing.txt')) or
                                    (change == 'modified' and path.endswith('/pkg') and c.get('fields') == ['mtime_ns'])):
            continue                    # the dangling link's target was created
        return False
    return True


KNOWN_SELECTORS['manifest_nested_link_named_like_later_write'] = _sel_manifest_nested_later_link
