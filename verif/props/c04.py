"""C04 — Resolved component configuration follows the documented layering order.

Every generated FlowIR document (see verif/gen/c04_docs.py) is resolved by the product for every component and every
platform and compared with the independent layering resolver verif/oracles/c04_layering.py.

Entry points ("via"):
  concrete   FlowIRConcrete(doc) [+ FlowIRExperimentConfiguration._patch_in_variable_files for a user variable file]
  conf-prim  ExperimentConfigurationFactory.configurationForExperiment(package, platform, variable_files, primitive=True)
  conf-repl  the same with primitive=False (the configuration an Experiment uses: flattened for the load platform)
  experiment Experiment.experimentFromPackage(..., variable_files, platform) on a real instance directory
always observed with FlowIRConcrete.get_component_configuration(id, raw=False, include_default=True, platform=X).
"""
import copy
import os
import re

from verif.core.runner import HarnessError
from verif.gen import c04_docs as G
from verif.oracles import c04_layering as O

PROPERTY = 'C04'
LEVEL = 'exploration'
EXHAUSTIVE = True
RULE = (
    'Families (all enumerated completely): var-subsets = one variable defined, with a layer-tagged value, in every '
    'subset of the 11 scopes {default global/stage, P global/stage, Q global/stage, user global/stage, component, '
    'component override[P], override[Q]} (the other stage defines it exactly where stage 0 does not; thorough also '
    'without that); opt-subsets = each of 5 options (int numberThreads, string arguments, nested lsf.queue, list '
    'shutdownOn, numeric walltime) in every subset of the 9 blueprint/component/override layers x value shape '
    '{literal, %(ref)s to a defined variable, refs defined only for component layers, only for blueprint layers, '
    'refs whose target the component redefines}; '
    'chain = v0->v1->v2 with every triple of defining scopes (v2 also undefined); rebind = reference to a variable '
    'defined in every pair of scopes from every scope; competing = reference-valued vs literal definition in every '
    'ordered pair of scopes; pairs = two variables / two sibling options in every pair of layers; typed = typed '
    'options fed from native values, text, references, chains. Each document is observed for every component '
    '(stage 0 with/without component layers, stage 1) on every platform {default, P, Q} through the entry points '
    'concrete / conf-prim / conf-repl / experiment (quick: every document through concrete, plus one load platform '
    'in rotation through at most one of the two package loaders - every other opt-subsets / chain document only '
    'through concrete; thorough: every load platform through both loaders, except one load platform per loader for '
    'the partially-defined-reference shapes and the pair-subsets stratum). A case (document x entry point x load platform) is non-trivial when at least two layers (counting the '
    'built-in defaults) define the tracked item or a reference has to be substituted; distinct = distinct case.')
ASSUMPTIONS = [
    'within the user-supplied layer a stage-scoped variable beats a global one (same global-then-stage order the '
    'statement gives for platforms)',
    'a list-valued option is one value: the highest layer that defines it supplies the whole list',
    '"reported as an error" = get_component_configuration (or loading the package for that platform) raises; the '
    'exception type is recorded but not judged',
    'substitution is late-bound: references are resolved against the final layered variables of the component',
    'spelling of a boolean written into text, None-valued entries, cyclic definitions, dotted names, array '
    'accesses, values that cannot be converted to the declared type and override[default] are not generated',
    'options whose schema admits int and float (walltime, statusRequestInterval) are judged as numbers only',
    'for conf-repl / experiment only the load platform is observed (the instance document is flattened for it)',
    'one user variable file (C15 owns the ordering of several files)',
]

COMPS = {'A': (0, 'A'), 'N': (0, 'N'), 'B': (1, 'B')}
CORE6 = ('dg', 'Ps', 'ug', 'us', 'c', 'ovP')
MISSING = '<missing>'


def get_path(d, path):
    for k in path.split('.'):
        if not isinstance(d, dict) or k not in d:
            return MISSING
        d = d[k]
    return d


def jsonable(x):
    if isinstance(x, dict):
        return {str(k): jsonable(v) for k, v in x.items()}
    if isinstance(x, (list, tuple, set)):
        return [jsonable(v) for v in x]
    if isinstance(x, (str, int, float, bool)) or x is None:
        return x
    return repr(x)


def nontrivial(spec):
    f = spec[0]
    if f == 'var-subsets':
        return bin(spec[1]).count('1') >= 2
    if f == 'opt-subsets':
        return spec[3] != 0
    if f == 'var-pair-subsets':
        return bin(spec[1]).count('1') + bin(spec[2]).count('1') >= 2
    return True


def preferred_load(spec, idx):
    """Quick tier: one load platform per document. Chains are broken on most platforms, so the platform the
    named scopes belong to is preferred (derived from the spec only, never from the oracle)."""
    if spec[0] in ('chain', 'rebind', 'competing', 'var-pair'):
        letters = set(l[0] for l in spec[1:] if l[0] in 'PQ') | set(l[2] for l in spec[1:] if l.startswith('ov'))
        if letters == {'P'}:
            return 'P'
        if letters == {'Q'}:
            return 'Q'
    return G.PLATFORMS[idx % 3]


def plan(family, idx, spec, thorough):
    """Which entry points / load platforms a document is pushed through."""
    yield 'concrete', 'default'
    conf = True
    if family == 'opt-subsets' and not thorough and spec[2] not in ('lit', 'ref', 'ref-rebound'):
        conf = False
    if conf:
        first = preferred_load(spec, idx)
        second = first if first != G.PLATFORMS[idx % 3] else G.PLATFORMS[(idx + 1) % 3]
        prim = repl = True
        if not thorough:
            # quick tier: the three big families go through one of the two package loaders per document
            if family == 'opt-subsets':
                # ... and every other subset (by parity of its size, shifted per option) goes through a loader at all
                half = (bin(spec[3]).count('1') + sorted(G.OPTIONS).index(spec[1])) % 2 == 0
                prim, repl = spec[2] == 'lit' and half, spec[2] in ('ref', 'ref-rebound') and half
            elif family == 'var-subsets':
                prim = bin(idx).count('1') % 2 == 0
                repl = not prim
            elif family == 'chain':
                prim = idx % 4 == 0
                repl = idx % 4 == 2
            else:
                prim = idx % 2 == 0
                repl = not prim
        every = thorough
        if spec[0] == 'var-pair-subsets' or (family == 'opt-subsets' and spec[2] in ('ref-comp-only', 'ref-bp-only')):
            every = False       # the bulkiest strata keep one load platform per loader in both tiers
        if prim:
            for l in (G.PLATFORMS if every else (first,)):
                yield 'conf-prim', l
        if repl:
            for l in (G.PLATFORMS if every else (second,)):
                yield 'conf-repl', l
    exp = False
    if spec[0] == 'var-subsets' and spec[2] == 1:
        exp = all(G.VAR_LAYERS[i] in CORE6 for i in range(len(G.VAR_LAYERS)) if spec[1] >> i & 1)
    elif thorough and spec[0] in ('chain', 'rebind', 'competing'):
        exp = all(l in CORE6 + ('none',) for l in spec[1:])
    elif spec[0] == 'typed':
        exp = spec[3] in ('c',) and spec[4] in ('ug', '-') and (thorough or 'false' in spec[2] or 'text' in spec[2])
        # a migratable component needs a partner component (an Experiment level rule that is not C04's business)
        if G.TYPED[spec[1]][0].endswith('isMigratable') and 'true' in spec[2]:
            exp = False
    if exp:
        yield 'experiment', 'P'
        yield 'experiment', 'default'


# ------------------------------------------------------------------------------------------------ entry points
def _write_user(user, d):
    import yaml
    if user is None:
        return None
    p = os.path.join(d, 'variables.yaml')
    with open(p, 'w') as f:
        yaml.safe_dump(user, f)
    return [p]


def open_via(via, load, doc, user, d):
    """Returns (FlowIRConcrete, platforms to observe). Raises whatever the product raises while loading."""
    import experiment.model.conf
    import experiment.model.frontends.flowir
    from verif.gen.pkg import write_package, experiment_from_doc
    files = _write_user(user, d)
    if via == 'concrete':
        c = experiment.model.frontends.flowir.FlowIRConcrete(copy.deepcopy(doc), load, {})
        if files:
            errs = []
            experiment.model.conf.FlowIRExperimentConfiguration._patch_in_variable_files(files, c, errs)
            if errs:
                raise errs[0]
        return c, G.PLATFORMS
    if via in ('conf-prim', 'conf-repl'):
        pp = write_package(copy.deepcopy(doc), d, name='pkg')
        conf = experiment.model.conf.ExperimentConfigurationFactory.configurationForExperiment(
            pp, platform=load, variable_files=files, createInstanceFiles=False, primitive=(via == 'conf-prim'),
            is_instance=False)
        c = conf.get_flowir_concrete(return_copy=False)
        return c, (G.PLATFORMS if via == 'conf-prim' else (load,))
    if via == 'experiment':
        exp = experiment_from_doc(copy.deepcopy(doc), d, variable_files=files, platform=load, name='pkg')
        return exp.configuration.get_flowir_concrete(return_copy=False), (load,)
    raise HarnessError('unknown entry point %r' % via)


# ------------------------------------------------------------------------------------------------ judging
def tracked_label(spec, val):
    f = spec[0]
    if f == 'var-subsets':
        return 'v<-%s' % val['var_winner'].get('v', 'nowhere')
    if f == 'opt-subsets':
        return '%s<-%s' % (spec[1], val['winner'].get(G.OPTIONS[spec[1]], 'nowhere'))
    if f in ('chain', 'rebind', 'competing'):
        return 'v0<-%s' % val['var_winner'].get('v0', 'nowhere')
    if f == 'typed':
        return 'typed:%s:%s' % (G.TYPED[spec[1]][1], spec[2])
    return f


def _typed_refs(section):
    """Option paths of a non-string declared type whose value in this section is a %(reference)s text."""
    return [p for p, v in O.leaves(section).items() if O.TYPES.get(p) in ('int', 'number', 'bool') and isinstance(v, str)]


def outside_alphabet(doc, user, via, load, comp_ids):
    """Documents the package *loader* (not the resolver) is known to treat specially; they are only pushed through
    the entry points that do not involve that loader step. Returns a reason or None."""
    if via == 'concrete':
        return None
    for c in doc['components']:
        for ov in (c.get('override') or {}).values():
            if _typed_refs(ov):
                return 'typed-option-reference-in-override'
    if via in ('conf-repl', 'experiment'):
        for body in (doc.get('blueprint') or {}).values():
            if _typed_refs((body or {}).get('global')) or any(_typed_refs(s) for s in ((body or {}).get('stages') or {}).values()):
                return 'typed-option-reference-in-blueprint'
    if via == 'experiment' and user:
        # the package is validated on its own before the user variables are known
        if any(O.resolve(doc, None, cid, load)[0] == 'error' for cid in comp_ids):
            return 'package-needs-user-variables-to-be-complete'
    return None


def judge_doc(col, family, spec, doc, user, via, load, only=None):
    comp_ids = [(int(c.get('stage', 0)), c['name']) for c in doc['components']]
    expected = {}
    try:
        reason = outside_alphabet(doc, user, via, load, comp_ids)
        if reason:
            col.count('skipped_' + reason.replace('-', '_'))
            return
        for cid in comp_ids:
            for plat in G.PLATFORMS:
                expected[(cid, plat)] = O.resolve(doc, user, cid, plat)
    except O.Grey as e:
        raise HarnessError('generator produced a grey-zone document %r: %s' % (spec, e))
    base = {'family': family, 'spec': list(spec), 'doc': jsonable(doc), 'user': jsonable(user), 'via': via, 'load': load}
    col.evaluated()
    if nontrivial(spec):
        col.nontriv([family, list(spec), via, load])
    from verif.gen.pkg import scratch_dir
    with scratch_dir('c04-') as d:
        try:
            concrete, plats = open_via(via, load, doc, user, d)
        except HarnessError:
            raise
        except Exception as e:
            msg = re.sub(r'-\d{4}-\d\d-\d\dT\d+\.\d+\.instance', '-<stamp>.instance', str(e).replace(d, '<scratch>'))
            err_here = [cid for cid in comp_ids if expected[(cid, load)][0] == 'error']
            err_any = [k for k, v in expected.items() if v[0] == 'error']
            if via != 'concrete' and err_here:
                col.outcome('%s|load-rejected|undefined-reference-on-load-platform|%s' % (via, type(e).__name__))
                return
            if via != 'concrete' and err_any:
                col.outcome('%s|load-rejected|undefined-reference-on-another-platform(not judged)' % via)
                col.count('not_judged_loads')
                return
            col.outcome('%s|FAIL|load-error' % via)
            record(col, dict(base, comp=None, platform=load),
                   'loading a document in which every reference is defined failed through %s on platform %s: %s: %s'
                   % (via, load, type(e).__name__, msg[:600]),
                   {'exception': type(e).__name__, 'message': msg[:3000]},
                   '%s|load-error|%s' % (via, type(e).__name__))
            return
        for plat in plats:
            for cid in comp_ids:
                if only is not None and (list(cid), plat) != only:
                    continue
                judge_one(col, base, spec, doc, user, via, concrete, cid, plat, expected[(cid, plat)])


def judge_one(col, base, spec, doc, user, via, concrete, cid, plat, exp):
    col.count('observations')
    case = dict(base, comp=list(cid), platform=plat)
    kind, val = exp
    try:
        obs = concrete.get_component_configuration(cid, raw=False, include_default=True, platform=plat)
    except Exception as e:
        if kind == 'error':
            col.outcome('%s|ok|undefined-reference-reported|%s' % (via, type(e).__name__))
            return
        col.outcome('%s|FAIL|unexpected-error' % via)
        record(col, case, 'stage%d.%s on platform %s via %s: every reference is defined but resolution raised %s: %s'
               % (cid[0], cid[1], plat, via, type(e).__name__, str(e)[:600]),
               {'exception': type(e).__name__, 'message': str(e)[:3000]},
               '%s|unexpected-error|%s' % (via, type(e).__name__))
        return
    if kind == 'error':
        col.outcome('%s|FAIL|undefined-reference-not-reported' % via)
        record(col, case, 'stage%d.%s on platform %s via %s: %s, but a configuration was returned'
               % (cid[0], cid[1], plat, via, val),
               {'variables': jsonable(obs.get('variables')), 'command': jsonable(obs.get('command'))},
               '%s|undefined-reference-not-reported' % via)
        return
    mism = []
    ovars = obs.get('variables')
    if not isinstance(ovars, dict):
        mism.append(('var', '*', 'a dictionary', repr(ovars), 'exp=dict', 'got=other'))
        ovars = {}
    for k in sorted(set(val['variables']) | set(ovars)):
        if k not in val['variables']:
            mism.append(('var', k, MISSING, ovars[k], 'exp=undefined',
                         'got=' + O.explain(doc, user, cid, plat, 'var', k, ovars[k])))
        elif k not in ovars:
            mism.append(('var', k, val['variables'][k], MISSING, 'exp=' + val['var_winner'][k], 'got=missing'))
        elif not O.same_variable(val['variables'][k], ovars[k], k in val['free_spelling']):
            mism.append(('var', k, val['variables'][k], ovars[k], 'exp=' + val['var_winner'][k],
                         'got=' + O.explain(doc, user, cid, plat, 'var', k, ovars[k])))
    for p, ev in sorted(val['options'].items()):
        got = get_path(obs, p)
        if got is MISSING:
            mism.append(('opt', p, ev, MISSING, 'exp=' + val['winner'][p], 'got=missing'))
        elif not O.same_value(p, ev, got):
            how = O.explain(doc, user, cid, plat, 'opt', p, got)
            if how == 'other' and not isinstance(got, (list, dict)) and type(got).__name__ != type(ev).__name__:
                how = 'type-%s' % type(got).__name__
            mism.append(('opt', p, ev, got, 'exp=' + val['winner'][p], 'got=' + how))
    if not mism:
        col.outcome('%s|ok|%s' % (via, tracked_label(spec, val)))
        return
    m = mism[0]
    col.outcome('%s|FAIL|wrong-%s' % (via, m[0]))
    why = 'stage%d.%s on platform %s via %s: ' % (cid[0], cid[1], plat, via) + '; '.join(
        '%s %s should be %r (from %s) but is %r (%s)' % (
            'variable' if x[0] == 'var' else 'option', x[1], x[2], x[4][4:], x[3], x[5][4:]) for x in mism[:4])
    record(col, case, why, {'mismatches': [jsonable(list(x)) for x in mism[:8]], 'n_mismatches': len(mism)},
           '%s|%s|%s|%s|%s' % (via, m[0], m[1], m[4], m[5]))


# ------------------------------------------------------------------------------------------------ driver
def worker(col, item, tier, seed):
    family, lo, hi = item
    thorough = tier == 'thorough'
    sp = G.specs(family, thorough)
    for idx in range(lo, hi):
        spec = sp[idx]
        doc, user = G.build(family, spec)
        for via, load in plan(family, idx, spec, thorough):
            judge_doc(col, family, spec, doc, user, via, load)
        if idx == lo and lo % 7 == 0:
            col.sample({'family': family, 'spec': list(spec), 'doc': jsonable(doc), 'user': jsonable(user)})


def oracle_selfcheck():
    """Hand-computed cases for the reference resolver (a wrong oracle must stop the run, not produce verdicts)."""
    doc = {'variables': {'default': {'global': {'v': 'dg', 'w': '%(v)s!'}, 'stages': {0: {'v': 'ds'}, 1: {'v': 'ds1'}}},
                         'P': {'global': {'v': 'Pg'}, 'stages': {}}, 'Q': {'global': {}, 'stages': {0: {'v': 'Qs'}}}},
           'blueprint': {'default': {'global': {'resourceRequest': {'numberThreads': '%(n)s'}}},
                         'P': {'stages': {0: {'resourceRequest': {'numberThreads': 8}}}}},
           'components': [{'name': 'A', 'stage': 0, 'command': {'executable': 'ls', 'arguments': '%(w)s'},
                           'variables': {'n': '3'}, 'override': {'Q': {'variables': {'v': 'ovQ'}}}},
                          {'name': 'B', 'stage': 1, 'command': {'executable': 'ls'}}]}
    user = {'global': {'v': 'ug'}, 'stages': {1: {'v': 'us1'}}}
    hand = [
        (None, (0, 'A'), 'default', 'value', 'ds!', 3), (None, (0, 'A'), 'P', 'value', 'Pg!', 8),
        (None, (0, 'A'), 'Q', 'value', 'ovQ!', 3), (user, (0, 'A'), 'P', 'value', 'ug!', 8),
        (user, (0, 'A'), 'Q', 'value', 'ovQ!', 3), (None, (1, 'B'), 'P', 'error', None, None),
    ]
    for u, cid, plat, kind, args, threads in hand:
        got = O.resolve(doc, u, cid, plat)
        ok = got[0] == kind and (kind == 'error' or (got[1]['options']['command.arguments'] == args and
                                                     got[1]['options']['resourceRequest.numberThreads'] == threads))
        if not ok:
            raise HarnessError('reference resolver self-check failed for %r %r %r: %r' % (u, cid, plat, got))
    b = O.resolve(doc, user, (1, 'B'), 'default')
    if b[0] != 'error':     # B inherits numberThreads: %(n)s from the blueprint but n is A's own variable
        raise HarnessError('reference resolver self-check failed for the bystander: %r' % (b,))
    doc['blueprint']['default']['global']['resourceRequest']['numberThreads'] = 2
    b = O.resolve(doc, user, (1, 'B'), 'Q')
    if b[0] != 'value' or b[1]['variables'] != {'v': 'us1', 'w': 'us1!'} or b[1]['options']['command.arguments'] != '':
        raise HarnessError('reference resolver self-check failed for the bystander: %r' % (b,))


def run(ctx):
    oracle_selfcheck()
    items = []
    for family in G.FAMILY_ORDER:
        n = len(G.specs(family, ctx.thorough))
        ctx.count('documents_' + family.replace('-', '_'), n)
        chunk = 24 if family != 'opt-subsets' else 48
        items.extend((family, i, min(n, i + chunk)) for i in range(0, n, chunk))
    ctx.pmap('verif.props.c04', 'worker', items, maxtasksperchild=40)


def replay(ctx, case):
    doc, user = G.fix_stage_keys(copy.deepcopy(case['doc']), copy.deepcopy(case.get('user')))
    only = None
    if case.get('comp') is not None:
        only = (list(case['comp']), case['platform'])
    judge_doc(ctx, case['family'], tuple(case['spec']), doc, user, case['via'], case['load'], only=only)


# ------------------------------------------------------------------------------------------------ known defects
# Each selector tests the *case* (the input shape that triggers the defect) and the *shape of the wrong observation*.

_OVERRIDE_LABEL = re.compile(r'stage(\d+)\.([A-Za-z0-9_-]+)\.override\.([A-Za-z0-9_-]+)\.')
BOOL_BUILTIN_CONVERSION = ('workflowAttributes.isMigratable', 'workflowAttributes.isMigrated',
                           'workflowAttributes.aggregate', 'workflowAttributes.optimizer.disable')
MEMO_FLAGS = ('workflowAttributes.memoization.disable.strong', 'workflowAttributes.memoization.disable.fuzzy')


def _case_ids(case):
    return [(int(c.get('stage', 0)), c['name']) for c in case['doc']['components']]


def _layered(case, cid, plat):
    variables = {}
    for _, layer in O.variable_layers(case['doc'], case.get('user'), cid, plat):
        variables.update(layer)
    return variables


def _strings(x):
    if isinstance(x, dict):
        for v in x.values():
            for y in _strings(v):
                yield y
    elif isinstance(x, list):
        for v in x:
            for y in _strings(v):
                yield y
    elif isinstance(x, str):
        yield x


def _sel_foreign_override(f):
    """Resolution (or loading) fails although everything the selected platform uses is defined, because the
    component's override section of ANOTHER platform refers to a variable the selected platform does not define."""
    parts = f['sig'].split('|')
    if len(parts) < 3 or parts[1] not in ('unexpected-error', 'load-error'):
        return False
    obs = f.get('observed') or {}
    msg = obs.get('message') or ''
    case = f['case']
    plat = case['platform']
    hits = _OVERRIDE_LABEL.findall(msg)
    if not hits or 'ttempted to resolve' not in msg:
        return False
    for stage, name, other in hits:
        if other == plat:
            return False
        cid = (int(stage), name)
        if cid not in _case_ids(case):
            return False
        comp = O.find_component(case['doc'], cid)
        section = (comp.get('override') or {}).get(other)
        if not section:
            return False
        variables = _layered(case, cid, plat)
        undefined = False
        for text in _strings(section):
            try:
                O.substitute(text, variables, 'foreign override')
            except O.Undefined:
                undefined = True
            except O.Grey:
                pass
        if not undefined:
            return False
    return True


def early_contexts(doc, user, cid, plat):
    """What the flattened (instance) document makes of the variables: global scopes are substituted among themselves
    first, then the stage scopes (with the user variables) on top of them, and only then the component's own.
    Returns the three variable contexts (global, global+stage, final)."""
    layers = dict(O.variable_layers(doc, user, cid, plat))

    def pre(values, ctx):
        out = {}
        for k, v in values.items():
            out[k] = v
            if isinstance(v, str):
                try:
                    out[k] = O.substitute(v, ctx, 'early', (k,))
                except O.Undefined:
                    pass
        return out

    g = dict(layers['default-global'])
    g.update(layers.get('platform-global', {}))
    g = pre(g, g)
    st = dict(layers['default-stage'])
    st.update(layers['user-global'])
    st.update(layers['user-stage'])
    if plat != O.DEFAULT:
        st = {k: v for k, v in st.items() if k not in layers['platform-global']}
        st.update(layers['platform-stage'])
        st.update(layers['user-global'])
        st.update(layers['user-stage'])
    ctx = dict(g)
    ctx.update(st)
    st = pre(st, ctx)
    gs = dict(g)
    gs.update(st)
    final = dict(gs)
    final.update(layers['component'])
    final.update(layers['component-override'])
    return g, gs, final


def early_prediction(doc, user, cid, plat):
    """('value', {'variables', 'options'}) as the early-binding defect would produce them."""
    g, gs, final = early_contexts(doc, user, cid, plat)
    pred = O.resolve(doc, user, cid, plat, _variables=final)
    if pred[0] != 'value':
        return pred
    # blueprint layers are substituted with the scope they are written in before the component is looked at
    ctx_of = {'default-global': g, 'platform-global': g, 'default-stage': gs, 'platform-stage': gs}
    raw, src = {}, {}
    for label, layer in O.option_layers(doc, cid, plat):
        for k, v in layer.items():
            raw[k] = v
            src[k] = label
    for p in list(pred[1]['options']):
        if src.get(p) not in ctx_of:
            continue

        def one(x, ctx=ctx_of[src[p]]):
            try:
                return O.substitute(x, ctx, 'early option')
            except O.Undefined:
                return x
        v = raw[p]
        v = [one(x) for x in v] if isinstance(v, list) else one(v)
        v = [O.substitute(x, final, 'late') for x in v] if isinstance(v, list) else O.substitute(v, final, 'late')
        pred[1]['options'][p] = O.to_type(p, v)
    return pred


def _sel_early_binding(f):
    """Flattened configuration only: a reference written in a global/stage scope (variables or blueprint) is bound
    to the value its target has in that scope, not to the value a higher layer (stage, user, component) gives it."""
    parts = f['sig'].split('|')
    case = f['case']
    if parts[0] not in ('conf-repl', 'experiment') or len(parts) < 2 or parts[1] not in ('var', 'opt'):
        return False
    mism = (f.get('observed') or {}).get('mismatches') or []
    if not mism or (f['observed'].get('n_mismatches', len(mism)) != len(mism)):
        return False
    cid = (int(case['comp'][0]), case['comp'][1])
    try:
        late = O.resolve(case['doc'], case.get('user'), cid, case['platform'])
        early = early_prediction(case['doc'], case.get('user'), cid, case['platform'])
    except (O.Grey, O.Undefined):
        return False
    if late[0] != 'value' or early[0] != 'value':
        return False
    for kind, key, exp, got, _, _ in mism:
        pred = early[1]['variables' if kind == 'var' else 'options'].get(key, MISSING)
        want = late[1]['variables' if kind == 'var' else 'options'].get(key, MISSING)
        if pred is MISSING or pred == want or jsonable(pred) != got:
            return False
    return True


def _winning_raw(case, path):
    cid = (int(case['comp'][0]), case['comp'][1])
    raw = None
    for _, layer in O.option_layers(case['doc'], cid, case['platform']):
        if path in layer:
            raw = layer[path]
    return raw


def _sel_bool_from_reference(f):
    """A boolean option converted with bool(text): any reference that resolves to false ends up True."""
    parts = f['sig'].split('|')
    if len(parts) < 2 or parts[1] != 'opt':
        return False
    mism = (f.get('observed') or {}).get('mismatches') or []
    if not mism or (f['observed'].get('n_mismatches', len(mism)) != len(mism)):
        return False
    for kind, key, exp, got, _, _ in mism:
        if kind != 'opt' or key not in BOOL_BUILTIN_CONVERSION or exp is not False or got is not True:
            return False
        if not isinstance(_winning_raw(f['case'], key), str):
            return False
    return True


def _sel_memoization_flag_not_converted(f):
    """memoization.disable.strong/fuzzy given through a reference stays a text ('True'/'False'); packages that do
    this are then rejected by the loader's schema check."""
    parts = f['sig'].split('|')
    case = f['case']
    obs = f.get('observed') or {}
    if len(parts) >= 2 and parts[1] == 'opt':
        mism = obs.get('mismatches') or []
        if not mism or (obs.get('n_mismatches', len(mism)) != len(mism)):
            return False
        for kind, key, exp, got, _, _ in mism:
            if kind != 'opt' or key not in MEMO_FLAGS or not isinstance(exp, bool) or not isinstance(got, str):
                return False
            if got.lower() != str(exp).lower() or not isinstance(_winning_raw(case, key), str):
                return False
        return True
    if len(parts) >= 2 and parts[1] == 'load-error':
        msg = obs.get('message') or ''
        lines = [l for l in msg.splitlines() if l.startswith('Invalid value') or l.startswith('Inconsistent')]
        if not lines or not all(re.match(r'Invalid value stage\d+\.\w+\.workflowAttributes\.memoization\.disable\.'
                                         r'(strong|fuzzy)=(True|False) ', l) for l in lines):
            return False
        # the case: some layer feeds one of the flags from a reference
        flagged = False
        for label, raw in O.definitions(case['doc'], case.get('user'), 'opt', MEMO_FLAGS[0]) + \
                O.definitions(case['doc'], case.get('user'), 'opt', MEMO_FLAGS[1]):
            flagged = flagged or isinstance(raw, str)
        return flagged
    return False


KNOWN_SELECTORS = {
    'foreign_platform_override_is_substituted': _sel_foreign_override,
    'early_binding_in_flattened_configuration': _sel_early_binding,
    'bool_option_from_reference_is_true': _sel_bool_from_reference,
    'memoization_flag_reference_not_converted': _sel_memoization_flag_not_converted,
}
KEEP_PER_CLASS = 2


def record(col, case, why, observed, sig):
    """All failures go through here. Failures that one of the selectors above recognises are thinned out (the first
    KEEP_PER_CLASS per class, entry point and work item are kept, the rest only counted) so that the thousands of
    repetitions of a known defect cannot crowd a new violation out of the runner's bounded failure list.
    Failures no selector recognises are always kept."""
    f = {'case': case, 'why': why, 'observed': jsonable(observed), 'sig': sig}
    col.count('failing_observations')
    runner_classifier = getattr(col, 'classifier', None)
    if runner_classifier is not None and runner_classifier(f) is not None:
        # the runner attributes (and bounds) failures of accepted known findings itself
        col.fail(case, why, f['observed'], sig)
        return
    cls = None
    for name, sel in KNOWN_SELECTORS.items():
        try:
            if sel(f):
                cls = name
                break
        except Exception as e:
            raise HarnessError('selector %s raised on %r: %r' % (name, sig, e))
    if cls is not None:
        seen = col.__dict__.setdefault('_c04_seen', {})
        key = (cls, case['via'])
        seen[key] = seen.get(key, 0) + 1
        if seen[key] > KEEP_PER_CLASS:
            col.count('failing_observations_of_recognised_classes_not_kept')
            return
    col.fail(case, why, f['observed'], sig)
