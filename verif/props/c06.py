"""C06 — DSL 2.0 compilation preserves the dataflow and parameter bindings.

Every generated namespace (plain dict) is handed to namespace_to_flowir(Namespace(**doc)) and, independently, to the
reference flattener verif/oracles/c06_dsl_flatten.py.  The two results are compared up to renaming of components
(labelled graph isomorphism); namespaces the reference model classifies as invalid must be rejected with
DSLInvalidError (or the schema's pydantic.ValidationError) whose errors all carry a location.
"""
import copy
import gc
import json
import re
import signal
import time

from verif.core.runner import HarnessError
from verif.gen import c06_namespaces as G
from verif.oracles import c06_dsl_flatten as O

PROPERTY = 'C06'
LEVEL = 'exploration'
EXHAUSTIVE = True
RULE = (
    'Valid namespaces, enumerated completely per family: (literals) chains of 1-3 nested workflows with one component '
    'template instantiated at every level under the same step name, every combination of per-link parameter modes '
    '{forwarded, defaulted, overridden, concatenated with text, integer} for m plus a second parameter built from the '
    "caller's m and n, also used in a non-argument field; (environments) a dictionary parameter used as "
    'command.environment, {defaulted, same, other keys, other value, forwarded, empty, "none"}^2 at two depths x entry given/defaulted; '
    '(references) producer 0-2 workflow levels below and consumer 0-2 forwarding levels below their common ancestor, '
    'which itself is 0-1 levels below the entry workflow; every spelling of the producer location (<a/b/s>, '
    '"<a>"/b/s quoted at every cut, <a>/b/s at every cut, or only a workflow prefix that is completed one level lower '
    'through the parameter), the path (none, f.txt, d/f.txt) inside the brackets / after them / appended at every '
    'forwarding level, the method appended at every level from there down to the component arguments; quick rotates '
    'the 5 methods, same-or-distinct step names, quoting of %(p)s and whether the consumer uses the parameter once / '
    'twice / not at all in its arguments, thorough takes the full product of methods and step naming; (multi) '
    'hand-written shapes: one workflow template instantiated twice / at two depths, references into both instances, '
    'producers at overlapping locations (u/p and u/u/p) with paths spelled like steps, one reference fanned out to '
    'several consumers, diamond, chain of one template at three depths in both directions, swapped parameter names, '
    'entry = component; (every-field) one component with a parameter reference in every field that accepts one '
    '(command.*, workflowAttributes.*, resourceRequest.*, resourceManager.{config,kubernetes,docker,lsf}.*, list '
    'elements, variables), all parameters defaulted / given / forwarded through two levels / entry = component; '
    '(entry-override) the arguments of the entry instance given partly by entrypoint.execute[0].args and partly by '
    'namespace_to_flowir(override_entrypoint_args=...): every split of 3 parameters into {neither, entrypoint, '
    'override, both} x entry = workflow / component, no and empty override, unknown parameter in the override; '
    '(variables) a component with private variables used in its own fields, called from 1-3 nested workflows whose '
    'parameters have the same name as a variable (or not) and are forwarded directly / inside text / next to another '
    'parameter, entry given or defaulted; (prefix-names) two producers whose step names are related as strings but are different path '
    'elements ({a,aa},{a,ab},{a,a-b},{a,a.b},{a,a_b},{sim,sim-post},{a,ba},{p,p.txt}; path none, f.txt, or spelled like '
    'either step), given different arguments and both referenced by one consumer, under all 6 orders of the execute '
    'list, as siblings / handed down through parameters / inside a nested workflow / as names of two workflow steps / '
    'as a component next to a workflow; (names) one template at three depths or as two siblings plus a nested one, step names from '
    '{x,y,x-I,x-II,I,x1,stage0.x,stage1.x}^3 (thorough adds X,stage1.x-I,x-IV,II) and entry-instance at one position - '
    'a case with a name outside {x,y} is judged "either properly rejected or compiled correctly"; (cycles) data-flow '
    'cycles between siblings and through a nested workflow. Invalid namespaces: every single-site mutation (22 '
    'operators: unknown / removed argument, removed default, unknown parameter reference in arguments of steps / every field of a component / '
    'entrypoint, reference to unknown / own / uncle step, renamed or dropped nested step or path element, method '
    'inside <>, removed method, unknown template, duplicate template (same and other kind), template recursion (direct '
    'and to the entry workflow), step without execute / execute without step / duplicate execute, missing entrypoint, '
    'unknown entry template, duplicate parameter) at every site of every representative namespace (one per '
    'structure x spelling with the simplest path/method placement; all multi shapes); thorough additionally mutates '
    'every literals namespace and every references namespace with method ref (except with the two segment operators, '
    'which currently make the compiler spin). The reference model classifies each mutant itself (valid / invalid / '
    'debatable / unmodelled); mutants it classifies valid are judged as valid namespaces. A case is non-trivial if it '
    'has at least one reachable component step or is a mutant; distinct = distinct namespace document.')
ASSUMPTIONS = [
    'the offending locations are a function of the namespace alone: every rejected mutant is compiled again, next in the '
    'same process, with its workflow and component template lists reversed (templates are found by name) and must '
    'report exactly the mirrored locations (template index i -> n-1-i); not applied to duplicate template names, where '
    'the reported one is by definition the later copy; a location [workflows|components, i|name, ...] must name a '
    'template that exists in the namespace',
    'component variables are private: %(v)s inside the component stays %(v)s, arguments written by a caller refer to the '
    "caller's parameters even when the callee has a variable of that name; a parameter and a variable of one component "
    'with the same name make the namespace invalid',
    'override_entrypoint_args names the entry arguments it replaces; arguments of entrypoint.execute[0].args it does not '
    'name stay in force (override > entrypoint arguments > declared default), an empty or absent override changes nothing',
    'workflowAttributes.isRepeat (derived by FlowIR from repeatInterval) is not compared; %(v)s with v a component '
    'variable stays as it is, values of variables are compared like any other field',
    'the meaning of a namespace is the one given in the module documentation of experiment.model.frontends.dsl: '
    '%(p)s refers to a parameter of the enclosing template instance, <s/...> is relative to the workflow that spells it, '
    'text appended to a parameter that carries a reference extends that reference',
    'component identity is compared up to renaming: node label = resolved command.executable and other non-argument '
    'fields + argument tokens with references abstracted to (path, method); edge labels = references (path, method) and '
    'argument positions',
    'excluded as grey zone (never generated): a path appended to a reference inside component arguments, references or '
    'parameter references inside defaults, explicit null defaults, '
    '%(replica)s, input./data. parameters, key outputs, literals containing whitespace, <, >, quotes or ":method"',
    'debatable namespaces (reference without any method, reference that ends on a workflow, odd step names) may be '
    'rejected with a proper error or compiled into a validator-clean FlowIR; any other exception or non-termination '
    'is a violation in both readings',
    'pydantic.ValidationError raised by Namespace(**doc) counts as a proper rejection with locations (the package '
    'loader converts it to DSLInvalidError itself)',
    'non-termination is detected with a CPU-time (ITIMER_VIRTUAL) budget of 1.5 s per compilation (first expiries of a process confirmed with 5 s), at least 10x the '
    'largest CPU time any terminating compilation of the run needed (recorded as max_compile_cpu_ms)',
    'every underlying error of a DSLInvalidError must have a non-empty location',
]
CPU_BUDGET = 1.5
CPU_BUDGET_CONFIRM = 5.0


# ------------------------------------------------------------------------------------------------ observation
class _Hang(BaseException):
    pass


def _on_timer(signum, frame):
    raise _Hang()


def _find_dsl_error(exc):
    import experiment.model.errors as E
    seen = set()
    while exc is not None and id(exc) not in seen:
        seen.add(id(exc))
        if isinstance(exc, E.DSLInvalidError):
            return exc
        nxt = getattr(exc, 'underlyingError', None)
        exc = nxt if isinstance(nxt, BaseException) else None
    return None


def _raw(x):
    return x if (isinstance(x, int) and not isinstance(x, bool)) else str(x)


def reordered(doc):
    """the same namespace with the lists of workflow and component templates reversed (templates are found by name)"""
    d = copy.deepcopy(doc)
    for k in ('workflows', 'components'):
        if d.get(k):
            d[k] = d[k][::-1]
    return d


def _locations(obs, doc, mirror):
    """sorted reported locations; mirror=True maps template indices of the reordered document back"""
    out = []
    for e in obs.get('errors') or []:
        loc = list(e.get('raw') or [])
        if mirror and len(loc) >= 2 and loc[0] in ('workflows', 'components') and isinstance(loc[1], int):
            loc[1] = len(doc.get(loc[0]) or []) - 1 - loc[1]
        out.append(loc)
    return sorted(out, key=repr)


def _dangling_location(obs, doc):
    """a reported location that names a template which does not exist in this namespace, or None"""
    for e in obs.get('errors') or []:
        loc = e.get('raw') or []
        if len(loc) >= 2 and loc[0] in ('workflows', 'components'):
            templates = doc.get(loc[0]) or []
            if isinstance(loc[1], int):
                if not 0 <= loc[1] < len(templates):
                    return loc
            elif loc[1] != '?' and loc[1] not in [t['signature']['name'] for t in templates]:
                return loc
    return None


def _compile(doc, call):
    import pydantic
    import experiment.model.errors as E
    from experiment.model.frontends.dsl import Namespace, namespace_to_flowir
    try:
        try:
            nsobj = Namespace(**copy.deepcopy(doc))
        except pydantic.ValidationError as e:
            return {'kind': 'schema-error', 'errors': [{'loc': [str(x) for x in err.get('loc', ())],
                                                        'raw': [_raw(x) for x in err.get('loc', ())],
                                                        'msg': str(err.get('msg'))[:200]} for err in e.errors()]}
        flowir = namespace_to_flowir(nsobj, **copy.deepcopy(call))
        comps = copy.deepcopy(flowir.get_components())
        verrors = [('%s: %s' % (type(x).__name__, x))[:300] for x in flowir.validate()]
        envs = copy.deepcopy((flowir.raw().get('environments') or {}).get('default') or {})
        return {'kind': 'ok', 'components': comps, 'validate': verrors, 'environments': envs}
    except Exception as e:
        d = _find_dsl_error(e)
        if d is not None:
            errs = []
            for u in d.underlying_errors:
                loc = getattr(u, 'location', None)
                msg = u.underlying_to_str() if hasattr(u, 'underlying_to_str') else str(u)
                errs.append({'loc': [str(x) for x in (loc or [])], 'raw': [_raw(x) for x in (loc or [])], 'msg': msg[:300]})
            return {'kind': 'dsl-error', 'errors': errs}
        return {'kind': 'exception', 'type': type(e).__name__, 'msg': str(e)[:300]}


def _observe_once(doc, budget, call):
    try:
        try:
            signal.setitimer(signal.ITIMER_VIRTUAL, budget)
            t0 = time.process_time()
            r = _compile(doc, call)
            _STATE['max_cpu'] = max(_STATE['max_cpu'], time.process_time() - t0)
            return r
        finally:
            signal.setitimer(signal.ITIMER_VIRTUAL, 0)
    except _Hang:
        return None


def observe(doc, budget=None, call=None):
    """Runs the compiler under a CPU-time budget. The first expiries seen by a process are confirmed with a 4x larger
    budget (if the longer run completes, its result is used and the expiry is not reported)."""
    old = signal.signal(signal.SIGVTALRM, _on_timer)
    try:
        call = call or {}
        r = _observe_once(doc, budget or CPU_BUDGET, call)
        if r is None and _STATE['confirmed_hangs'] < 2:
            r = _observe_once(doc, CPU_BUDGET_CONFIRM, call)
            if r is None:
                _STATE['confirmed_hangs'] += 1
        if r is None:
            return {'kind': 'hang', 'cpu_budget_s': CPU_BUDGET}
        return r
    finally:
        signal.signal(signal.SIGVTALRM, old)


_STATE = {'confirmed_hangs': 0, 'max_cpu': 0.0}
_REF = re.compile(r'^stage(\d+)\.([^/:\s]+)(?:/([^:\s]*))?:(ref|copy|output|link|extract)$')


def _leaves(prefix, value, out):
    if isinstance(value, dict):
        for k in value:
            _leaves(prefix + (str(k),), value[k], out)
    elif isinstance(value, list):
        for i, v in enumerate(value):
            _leaves(prefix + (str(i),), v, out)
    else:
        out.append(('.'.join(prefix), str(value)))


def observed_graph(comps, environments=None):
    """-> (problem or None, nodes {id: label}, edges {(producer id, consumer id): frozenset(labels)})"""
    ids = [(c.get('stage'), c.get('name')) for c in comps]
    if len(set(ids)) != len(ids):
        return 'duplicate-ids', {}, {}
    known = set(ids)
    nodes, edges = {}, {}
    for c in comps:
        me = (c.get('stage'), c.get('name'))
        fields = []
        for k in c:
            if k in ('name', 'stage', 'references'):
                continue
            if k == 'command':
                sub = dict((a, b) for a, b in c[k].items() if a not in ('arguments', 'environment'))
                _leaves((k,), sub, fields)
            else:
                _leaves((k,), c[k], fields)
        # derived by FlowIR from repeatInterval ('tracked internally'), not a field of the template
        fields = [f for f in fields if f[0] != 'workflowAttributes.isRepeat']
        tokens = []
        args = c.get('command', {}).get('arguments') or ''
        if not isinstance(args, str):
            return 'arguments-not-a-string', {}, {}
        for idx, tok in enumerate(args.split()):
            m = _REF.match(tok)
            if m and (int(m.group(1)), m.group(2)) in known:
                path = (m.group(3) or '').strip('/')
                tokens.append(('REF', path, m.group(4)))
                edges.setdefault(((int(m.group(1)), m.group(2)), me), set()).add(('arg', idx, path, m.group(4)))
            else:
                tokens.append(tok)
        for r in c.get('references') or []:
            m = _REF.match(r) if isinstance(r, str) else None
            if not m or (int(m.group(1)), m.group(2)) not in known:
                return 'dangling-reference:%s' % re.sub(r'[A-Za-z0-9_.-]+', 'w', str(r))[:40], {}, {}
            path = (m.group(3) or '').strip('/')
            edges.setdefault(((int(m.group(1)), m.group(2)), me), set()).add(('ref', path, m.group(4)))
        ename = c.get('command', {}).get('environment')
        if ename is None:
            env = None
        elif ename == 'none':
            env = ('none',)
        elif isinstance(ename, str) and ename in (environments or {}):
            d = environments[ename] or {}
            env = ('dict', tuple(sorted((str(k), str(v)) for k, v in d.items()))) if d else ('none',)
        else:
            return 'unknown-environment', {}, {}
        nodes[me] = (tuple(sorted(fields)), env, tuple(tokens))
    return None, nodes, dict((k, frozenset(v)) for k, v in edges.items())


def compare_graphs(exp_nodes, exp_edges, obs_nodes, obs_edges):
    """None if isomorphic, else a short class label"""
    import networkx as nx
    if len(exp_nodes) != len(obs_nodes):
        return 'component-count'
    if sorted(map(repr, exp_nodes.values())) != sorted(map(repr, obs_nodes.values())):
        a = sorted(exp_nodes.values(), key=repr)
        b = sorted(obs_nodes.values(), key=repr)
        if sorted(repr(x[0]) for x in a) != sorted(repr(x[0]) for x in b):
            return 'fields'
        if sorted(repr(x[:2]) for x in a) != sorted(repr(x[:2]) for x in b):
            return 'environment'
        return 'arguments'
    g1, g2 = nx.DiGraph(), nx.DiGraph()
    for g, nodes, edges in ((g1, exp_nodes, exp_edges), (g2, obs_nodes, obs_edges)):
        for n, lab in nodes.items():
            g.add_node(n, label=lab)
        for (a, b), labs in edges.items():
            g.add_edge(a, b, labels=labs)
    ok = nx.is_isomorphic(g1, g2, node_match=lambda x, y: x['label'] == y['label'],
                          edge_match=lambda x, y: x['labels'] == y['labels'])
    return None if ok else 'edges'


def _msg_class(msg):
    return re.sub(r'\s+', ' ', re.sub(r"[<\[\"'{(].*", '', str(msg))).strip()[:60]


def _proper_rejection(obs):
    """None if the rejection lists locations, else a label"""
    errs = obs.get('errors') or []
    if not errs:
        return 'no-errors-listed'
    if any(len(e['loc']) == 0 for e in errs):
        return 'error-without-location'
    return None


# ------------------------------------------------------------------------------------------------ judge
def classify(doc):
    try:
        flat = O.flatten(doc)
        return 'valid', None, flat
    except O.Invalid as inv:
        return ('invalid' if inv.strict else 'debatable'), inv.kind, None
    except O.OutOfModel as e:
        return 'unmodelled', str(e)[:80], None


def judge(col, case):
    """case: {'family','id','mode','doc', 'mutation': None | {'kind','site'}}"""
    doc = case['doc']
    call = {}
    meant = doc
    if 'override' in case:
        # namespace_to_flowir(..., override_entrypoint_args=X): the arguments named in X replace those of the entrypoint,
        # the other arguments of the entrypoint stay (override > entrypoint.execute args > declared default)
        call = {'override_entrypoint_args': case['override']}
        if case['override']:
            meant = copy.deepcopy(doc)
            meant['entrypoint']['execute'][0].setdefault('args', {}).update(copy.deepcopy(case['override']))
    verdict, okind, flat = classify(meant)
    mut = case.get('mutation')
    if mut is None:
        want = case.get('expect') or ('invalid' if case['family'] == 'cycles' else 'valid')
        if verdict != want:
            raise HarnessError('generator and reference model disagree on %s/%s: %s %s' % (case['family'], case['id'], verdict, okind))
    if verdict == 'valid' and case.get('mode') == 'either':
        verdict = 'either'
    col.evaluated()
    col.nontriv(G.canon([doc, case.get('override', 'no-override-argument')]))
    obs = observe(doc, call=call)
    kind = obs['kind']
    short = dict(obs)
    short.pop('environments', None)
    if kind == 'ok':
        short['components'] = [{'id': [c.get('stage'), c.get('name')], 'arguments': c.get('command', {}).get('arguments'),
                                'references': c.get('references')} for c in obs['components']]
    expected = {'verdict': verdict, 'why': okind}
    tag = '%s%s' % (verdict, ':' + okind if (okind and verdict != 'unmodelled') else '')

    def fail(why, sig):
        col.outcome('FAIL:%s' % sig)
        col.fail(dict((k, case[k]) for k in ('family', 'id', 'mode', 'mutation', 'doc', 'override', 'expect') if k in case), why,
                 {'observed': short, 'expected': expected}, sig='%s|%s' % (tag, sig))

    # outcomes that violate the property whatever the namespace means
    if kind == 'hang':
        return fail('the compiler did not terminate within %.1f CPU seconds (reference model: %s %s)'
                    % (CPU_BUDGET, verdict, okind or ''), 'hang')
    if kind == 'exception':
        return fail('the compiler raised %s (%s) instead of compiling or raising DSLInvalidError (reference model: %s %s)'
                    % (obs['type'], obs['msg'][:120], verdict, okind or ''), 'exception:%s' % obs['type'])
    if kind in ('dsl-error', 'schema-error'):
        bad = _proper_rejection(obs)
        if bad and verdict != 'valid':
            return fail('rejected, but %s: %s' % (bad, json.dumps(obs['errors'])[:400]), 'rejection:%s' % bad)
        if verdict == 'valid':
            return fail('a valid namespace was rejected: %s' % json.dumps(obs['errors'])[:600],
                        'valid-rejected:%s' % _msg_class(obs['errors'][0]['msg'] if obs['errors'] else ''))
        # the locations must belong to THIS namespace: not dangling, and - whatever was compiled before in this process -
        # the same namespace with its template lists reversed must report the mirrored locations
        dangling = _dangling_location(obs, doc)
        if dangling:
            return fail('rejected, but the location %r does not exist in the namespace: %s'
                        % (dangling, json.dumps(obs['errors'])[:300]), 'rejection:dangling-location')
        if okind != 'duplicate-template' and mut is not None and 'override' not in case:
            twin = reordered(doc)
            obs2 = observe(twin, call=call)
            col.count('reordered_twins_compiled')
            if obs2['kind'] != kind or _locations(obs2, twin, True) != _locations(obs, doc, False):
                short['reordered_twin'] = {'kind': obs2['kind'], 'errors': obs2.get('errors')}
                return fail('the same namespace with its template lists reversed (compiled next in the same process) '
                            'reports %s %r, which are not the mirrored locations of %r'
                            % (obs2['kind'], [e.get('raw') for e in obs2.get('errors') or []],
                               [e.get('raw') for e in obs['errors']]), 'rejection:locations-not-of-this-namespace')
        col.outcome('%s -> %s' % (verdict, kind))
        return
    # compiled
    problem, obs_nodes, obs_edges = observed_graph(obs['components'], obs.get('environments'))
    if verdict == 'invalid':
        return fail('an invalid namespace (%s) was compiled instead of being rejected' % okind, 'invalid-accepted')
    if verdict == 'unmodelled':
        col.outcome('unmodelled -> compiled (not judged)')
        return
    if problem:
        return fail('compiled FlowIR is malformed: %s' % problem, problem)
    if obs['validate']:
        return fail('compiled FlowIR is not accepted by FlowIRConcrete.validate(): %s' % obs['validate'][:3],
                    'validator:%s' % _msg_class(obs['validate'][0]))
    if verdict == 'debatable':
        col.outcome('debatable -> compiled, validator-clean (dataflow not judged)')
        return
    exp_nodes, exp_edges = O.expected_graph(flat)
    diff = compare_graphs(exp_nodes, exp_edges, obs_nodes, obs_edges)
    if diff:
        expected['nodes'] = dict(('/'.join(k), [list(v[0]), v[1], list(v[2])]) for k, v in exp_nodes.items())
        expected['edges'] = sorted(['/'.join(a) + ' -> ' + '/'.join(b) + ' ' + repr(sorted(l, key=repr))
                                    for (a, b), l in exp_edges.items()])
        return fail('compiled FlowIR differs from the reference flattening in its %s (up to renaming)' % diff,
                    'graph:%s' % diff)
    col.outcome('%s -> compiled, isomorphic to the reference (%d components, %s producer/consumer pairs)'
                % (verdict, len(exp_nodes), len(exp_edges) if len(exp_edges) < 3 else '3+'))


# ------------------------------------------------------------------------------------------------ enumeration
def _mutants(base, thorough):
    if base['mode'] != 'valid' or base['family'] in ('cycles', 'names'):
        return
    if not base['rep'] and not (thorough and base['mutate']):
        return
    seen = set([G.canon(base['doc'])])
    for kind, site, doc in G.mutations(base['doc'], heavy=base['rep']):
        key = G.canon(doc)
        if key in seen:
            continue
        seen.add(key)
        yield {'family': base['family'], 'id': base['id'], 'mode': 'valid', 'doc': doc,
               'mutation': {'kind': kind, 'site': site}}


_BASES = {}


def _bases(thorough):
    if thorough not in _BASES:
        _BASES[thorough] = list(G.base_items(thorough))
        # keep the (large, immutable) list out of the cyclic garbage collector: a full collection that has to traverse
        # it costs more CPU than a compilation and would eat into the non-termination budget
        gc.collect()
        gc.freeze()
    return _BASES[thorough]


def _warm_up():
    """one compilation outside the measurements: pays the one-time costs (lazy imports, regex caches)"""
    mx = _STATE['max_cpu']
    observe(G.ns('main', {}, [G.wf('main', [], [('p', 'P', {})])], [G.comp('P', [('m', 'd')], 'm=%(m)s')]), budget=60.0)
    _STATE['max_cpu'] = mx


def worker(col, item, tier, seed):
    lo, hi = item
    thorough = tier == 'thorough'
    bases = _bases(thorough)
    _warm_up()
    for base in bases[lo:hi]:
        case = {'family': base['family'], 'id': base['id'], 'mode': base['mode'], 'doc': base['doc'], 'mutation': None}
        for k in ('override', 'expect'):
            if k in base:
                case[k] = base[k]
        judge(col, case)
        col.count('base_namespaces')
        n = 0
        for m in _mutants(base, thorough):
            judge(col, m)
            n += 1
        col.count('mutated_namespaces', n)
    col.payload.append(('max_cpu', _STATE['max_cpu']))
    if lo < len(bases):
        b = bases[lo]
        col.sample({'family': b['family'], 'id': b['id'], 'doc': b['doc']})


def run(ctx):
    n = len(_bases(ctx.thorough))   # computed before the pool forks, inherited by the workers
    # interleave: chunks of consecutive bases, small enough to balance the mutation-heavy representatives
    chunk = 8 if not ctx.thorough else 16
    items = [(i, min(n, i + chunk)) for i in range(0, n, chunk)]
    ctx.pmap('verif.props.c06', 'worker', items, maxtasksperchild=40)
    mx = max([v for k, v in ctx.payload if k == 'max_cpu'] or [0.0])
    ctx.extra['max_compile_cpu_ms'] = int(round(mx * 1000))
    if mx * 10 > CPU_BUDGET:
        ctx.note('a terminating compilation needed %.0f ms CPU, less than 10x below the non-termination budget' % (mx * 1000))


def replay(ctx, case):
    _warm_up()
    judge(ctx, case)


# ------------------------------------------------------------------------------------------------ known findings
def _instances(doc):
    """step names of all component instances reachable from the entrypoint (with multiplicity)"""
    templates = {}
    for kind in ('workflows', 'components'):
        for t in doc.get(kind) or []:
            templates.setdefault(t['signature']['name'], (kind, t))
    out = []

    def walk(name, step, chain):
        if name not in templates or name in chain:
            return
        kind, t = templates[name]
        if kind == 'components':
            out.append(step)
            return
        for s, child in (t.get('steps') or {}).items():
            walk(child, s, chain + [name])

    ep = doc.get('entrypoint') or {}
    walk(ep.get('entry-instance'), 'entry-instance', [])
    return out


def _numeral(n):
    out = ''
    for v, sym in ((10, 'X'), (9, 'IX'), (5, 'V'), (4, 'IV'), (1, 'I')):
        while n >= v:
            out += sym
            n -= v
    return out


def _generated_names(doc):
    """the names the compiler derives from step names: s, s-I, s-II, ... per distinct step name (order independent)"""
    counts = {}
    for s in _instances(doc):
        counts[s] = counts.get(s, 0) + 1
    names = []
    for s, k in sorted(counts.items()):
        names.append(s)
        names.extend('%s-%s' % (s, _numeral(i)) for i in range(1, k))
    return names


def _ids_collide(doc):
    ids = []
    for n in _generated_names(doc):
        m = re.match(r'^(?:stage([0-9]+)\.)?(.*)$', n)
        ids.append((int(m.group(1) or 0), m.group(2)))
    return len(set(ids)) != len(ids)


def _name_ends_with_digit(doc):
    return any(re.search(r'[0-9]$', n) for n in _generated_names(doc))


def _references_step_called_like_root(doc):
    for w in doc.get('workflows') or []:
        if 'entry-instance' in (w.get('steps') or {}):
            for e in w.get('execute') or []:
                for v in (e.get('args') or {}).values():
                    if isinstance(v, str) and '<entry-instance' in v:
                        return True
    return False


def _sel_hang_reference_lands_on_workflow(f):
    if not f['sig'].endswith('|hang'):
        return False
    doc = f['case']['doc']
    _v, kind, _ = classify(doc)
    return kind in ('reference-to-unknown-step', 'reference-to-workflow') or _references_step_called_like_root(doc)


def _sel_hang_dataflow_cycle(f):
    return f['sig'].endswith('|hang') and classify(f['case']['doc'])[1] == 'dataflow-cycle'


def _sel_generated_ids_collide(f):
    return f['sig'].endswith('|exception:FlowIRComponentExists') and _ids_collide(f['case']['doc'])


def _sel_step_name_ends_with_digit(f):
    return (f['sig'].endswith('|exception:AttributeError')
            and 'groupdict' in str((f.get('observed') or {}).get('observed', {}).get('msg', ''))
            and _name_ends_with_digit(f['case']['doc']))


def _sel_undefined_parameter_in_environment(f):
    """observation: a bare KeyError; case: some component sets command.environment to %(name)s and `name` is not one of its
    parameters"""
    if not f['sig'].endswith('|exception:KeyError'):
        return False
    for c in f['case']['doc'].get('components') or []:
        e = (c.get('command') or {}).get('environment')
        m = re.match(r'^%\(([A-Za-z0-9_.-]+)\)s$', e) if isinstance(e, str) else None
        if m and m.group(1) not in [p['name'] for p in c['signature'].get('parameters') or []]:
            return str((f.get('observed') or {}).get('observed', {}).get('msg', '')).strip("'\"") == m.group(1)
    return False


KNOWN_SELECTORS = {
    'undefined_parameter_in_environment_keyerror': _sel_undefined_parameter_in_environment,
    'hang_reference_lands_on_workflow': _sel_hang_reference_lands_on_workflow,
    'hang_dataflow_cycle': _sel_hang_dataflow_cycle,
    'generated_component_ids_collide': _sel_generated_ids_collide,
    'component_step_name_ends_with_digit': _sel_step_name_ends_with_digit,
}
