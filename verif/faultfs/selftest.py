"""Self-test of the interposer: `python -m verif.faultfs.selftest` (exit 0 = ok). Uses only the standard library."""
import json
import os
import shutil
import sys
import tempfile

from . import Crash, Fault, FaultFS, enumerate_faults, enumerate_persistent_faults, error_path_entries


def writer(d, value):
    """A correct temp+rename writer and an in-place writer side by side."""
    tmp = os.path.join(d, 'tmp')
    with open(tmp, 'w') as f:
        f.write('{"v": ')
        f.write(json.dumps(value))
        f.write('}')
    os.rename(tmp, os.path.join(d, 'atomic.json'))
    with open(os.path.join(d, 'inplace.json'), 'w') as f:
        f.write('{"v": ')
        f.write(json.dumps(value))
        f.write('}')


def retrying_writer(d, value):
    """temp + replace, but a failed replace is "repaired" by remove + rename (loses the file if the error persists)."""
    tmp, dst = os.path.join(d, 'tmp2'), os.path.join(d, 'retry.json')
    with open(tmp, 'w') as f:
        f.write(json.dumps({'v': value}))
    try:
        os.replace(tmp, dst)
    except OSError:
        os.remove(dst)
        os.rename(tmp, dst)


def second_stage(d, buffered):
    """persistent errors and crashes on the error-handling path expose retrying_writer; one-shot faults do not."""
    retrying_writer(d, 'old')
    with FaultFS(d, buffered=buffered) as fs:
        retrying_writer(d, 'new')
    log = fs.log
    dst = os.path.join(d, 'retry.json')
    bad = {'one-shot': 0, 'persistent': 0, 'then-crash': 0}

    def run(fault):
        retrying_writer(d, 'old')
        with FaultFS(d, fault, buffered=buffered) as f2:
            try:
                retrying_writer(d, 'new')
            except (Crash, OSError):
                pass
        assert f2.fired
        return f2, load(dst) not in ('old', 'new')

    for fault in enumerate_faults(log):
        f2, broken = run(fault)
        bad['one-shot'] += broken
        if fault.kind == 'ioerror':
            for m in error_path_entries(log, fault, f2.log):
                f3, broken = run(Fault('ioerror', fault.op, fault.prefix, fault.err, then_crash=m))
                assert f3.crash_fired and f3.dead
                bad['then-crash'] += broken
    for fault in enumerate_persistent_faults(log):
        f2, broken = run(fault)
        if fault.persist == 'all':
            assert not broken, fault        # remove fails too: the old file survives
        bad['persistent'] += broken
    assert bad['one-shot'] == 0 and bad['persistent'] > 0 and bad['then-crash'] > 0, bad


def load(p):
    if not os.path.exists(p):
        return 'ABSENT'
    try:
        with open(p) as f:
            return json.load(f)['v']
    except Exception:
        return 'BROKEN'


def main():
    base = '/dev/shm' if os.access('/dev/shm', os.W_OK) else None
    root = tempfile.mkdtemp(prefix='faultfs-selftest-', dir=base)
    try:
        for buffered in (False, True):
            d = os.path.join(root, 'b%d' % buffered)
            os.makedirs(d)
            writer(d, 'old')
            with FaultFS(d, buffered=buffered) as fs:
                writer(d, 'new')
            log = fs.log
            names = [o.name for o in log]
            want = (['open', 'write', 'write', 'write', 'close', 'rename', 'open', 'write', 'write', 'write', 'close']
                    if not buffered else ['open', 'close', 'rename', 'open', 'close'])
            assert names == want, names
            assert load(os.path.join(d, 'atomic.json')) == 'new' and load(os.path.join(d, 'inplace.json')) == 'new'
            bad_atomic, bad_inplace, n = 0, 0, 0
            for fault in enumerate_faults(log):
                writer(d, 'old')
                crashed = False
                with FaultFS(d, fault, buffered=buffered) as fs:
                    try:
                        writer(d, 'new')
                    except Crash:
                        crashed = True
                    except OSError:
                        assert fault.kind == 'ioerror'
                assert fs.fired and crashed == (fault.kind == 'crash'), fault
                if crashed:
                    assert fs.dead
                n += 1
                bad_atomic += load(os.path.join(d, 'atomic.json')) not in ('old', 'new')
                bad_inplace += load(os.path.join(d, 'inplace.json')) not in ('old', 'new')
            assert n > 10 and bad_atomic == 0 and bad_inplace > 0, (n, bad_atomic, bad_inplace)
            second_stage(d, buffered)
            # operations outside the root are neither logged nor faulted; patches are removed on exit
            other = os.path.join(root, 'outside.txt')
            with FaultFS(d, Fault('crash', 0)) as fs:
                with open(other, 'w') as f:
                    f.write('x')
            assert fs.log == [] and not fs.fired and open(other).read() == 'x'
            assert open.__module__ in ('io', '_io') and os.rename.__module__ == 'posix'
        print('faultfs selftest ok')
        return 0
    finally:
        shutil.rmtree(root, ignore_errors=True)


if __name__ == '__main__':
    sys.exit(main())
