"""Python-level interposer for file operations with crash / I/O-error injection. See package docstring."""
import builtins
import errno as _errno
import io
import locale
import os
import re
import shutil

_REAL = {
    'open': builtins.open, 'io_open': io.open,
    'rename': os.rename, 'replace': os.replace, 'remove': os.remove, 'unlink': os.unlink,
    'makedirs': os.makedirs, 'mkdir': os.mkdir, 'rmdir': os.rmdir, 'symlink': os.symlink, 'link': os.link,
    'truncate': os.truncate, 'os_open': os.open,
    'copyfile': shutil.copyfile, 'rmtree': shutil.rmtree,
}
_ACTIVE = [None]
_UUID = re.compile(r'[0-9a-f]{8}-[0-9a-f]{4}-[0-9a-f]{4}-[0-9a-f]{4}-[0-9a-f]{12}')

PREFIXES = ('none', 'half', 'allbut1')
BUFFER_SIZE = 8192      # io.DEFAULT_BUFFER_SIZE: a buffered file hands its data to the OS in units of this size


class Crash(BaseException):
    """The simulated death of the process. Deliberately not an Exception: `except Exception` must not swallow it."""


class InterposerError(Exception):
    """The code under test used a file operation the interposer cannot account for (a harness problem)."""


class Op:
    __slots__ = ('index', 'name', 'path', 'size')

    def __init__(self, index, name, path, size=None):
        self.index, self.name, self.path, self.size = index, name, path, size

    def as_list(self):
        return [self.index, self.name, self.path, self.size]

    def __repr__(self):
        return 'Op(%d %s %s%s)' % (self.index, self.name, self.path, '' if self.size is None else ' %dB' % self.size)


OP_CLASS = {'open': 'data', 'write': 'data', 'flush': 'data', 'close': 'data', 'ftruncate': 'data', 'truncate': 'data',
            'rename': 'link', 'replace': 'link', 'link': 'link', 'symlink': 'link',
            'mkdir': 'dir', 'makedirs': 'dir', 'remove': 'unlink', 'rmdir': 'unlink', 'rmtree': 'unlink'}


class Fault:
    """kind: 'crash' | 'ioerror'; op: index in the write log; prefix: for data ops how much of the data reaches the
    file before the fault ('none' | 'half' | 'allbut1'); err: errno name for ioerror.

    ioerror only: persist = None (one shot: every later operation succeeds) | 'class' (until the interposer is left,
    every later operation of the same class - data / link / dir / unlink, see OP_CLASS - fails too: the condition that
    made a rename fail makes the retry fail as well, while removing files still works, as with ENOSPC / EDQUOT) |
    'all' (every later operation fails: the file system is gone). then_crash = index of a LATER entry of the log of the
    run with this error at which the process dies (a crash inside the error-handling path)."""
    __slots__ = ('kind', 'op', 'prefix', 'err', 'persist', 'then_crash')

    def __init__(self, kind, op, prefix='none', err='EIO', persist=None, then_crash=None):
        assert kind in ('crash', 'ioerror') and prefix in PREFIXES and persist in (None, 'class', 'all')
        assert kind == 'ioerror' or (persist is None and then_crash is None)
        self.kind, self.op, self.prefix, self.err = kind, int(op), prefix, err
        self.persist, self.then_crash = persist, (None if then_crash is None else int(then_crash))

    def to_json(self):
        d = {'kind': self.kind, 'op': self.op, 'prefix': self.prefix, 'err': self.err}
        if self.persist is not None:
            d['persist'] = self.persist
        if self.then_crash is not None:
            d['then_crash'] = self.then_crash
        return d

    @classmethod
    def from_json(cls, d):
        return cls(d['kind'], d['op'], d.get('prefix', 'none'), d.get('err', 'EIO'), d.get('persist'), d.get('then_crash'))

    def __repr__(self):
        return 'Fault(%s@%d %s %s%s%s)' % (self.kind, self.op, self.prefix, self.err,
                                          ' persist=%s' % self.persist if self.persist else '',
                                          ' then-crash@%d' % self.then_crash if self.then_crash is not None else '')


def prefix_len(prefix, n):
    if n <= 0:
        return 0
    return {'none': 0, 'half': n // 2, 'allbut1': n - 1}[prefix]


def describe_fault(fault, log):
    """Human readable description of a fault against a recorded log (list of Op)."""
    op = log[fault.op] if 0 <= fault.op < len(log) else None
    where = '%s(%s)' % (op.name, op.path) if op else 'op#%d' % fault.op
    data_op = op is not None and (op.name == 'write' or (op.name in ('flush', 'close') and op.size))
    if fault.kind == 'crash':
        if data_op:
            return 'crash in op %d %s after %s of its %s bytes' % (fault.op, where, {'none': 'none', 'half': 'half', 'allbut1': 'all but one'}[fault.prefix], op.size)
        return 'crash before op %d %s' % (fault.op, where)
    tail = ''
    if fault.persist == 'class':
        tail = ' and by every later %s operation of the update' % OP_CLASS.get(op.name if op else '', '?')
    elif fault.persist == 'all':
        tail = ' and by every later file operation of the update'
    if fault.then_crash is not None:
        tail += ', followed by a crash before entry %d of the log of that run' % fault.then_crash
    if data_op:
        return '%s raised by op %d %s after %s of its bytes were written%s' % (fault.err, fault.op, where, {'none': 'none', 'half': 'half', 'allbut1': 'all but one'}[fault.prefix], tail)
    return '%s raised by op %d %s%s' % (fault.err, fault.op, where, tail)


def enumerate_faults(log, crash=True, ioerror=True, both_errnos=False):
    """All faults for every boundary of a recorded write log, simplest first.

    crash:   before every op; for a write additionally after half / all-but-the-last byte of its data (prefixes that
             coincide for short writes are generated once).
    ioerror: every op raises once; a write raises after nothing and after half of the data was written;
             errno ENOSPC for open/write/makedirs/copy, EIO for the rest (both for every op if both_errnos)."""
    out = []
    for op in log:
        carries_data = op.name == 'write' or (op.name in ('flush', 'close') and (op.size or 0) > 0)
        if crash:
            if carries_data:
                seen = set()
                for p in PREFIXES:
                    n = prefix_len(p, op.size or 0)
                    if n in seen:
                        continue
                    seen.add(n)
                    out.append(Fault('crash', op.index, p))
            else:
                out.append(Fault('crash', op.index))
        if ioerror:
            errs = ('ENOSPC', 'EIO') if both_errnos else (('ENOSPC',) if op.name in ('open', 'write', 'makedirs', 'mkdir', 'symlink', 'link') else ('EIO',))
            for e in errs:
                out.append(Fault('ioerror', op.index, 'none', e))
                if carries_data and (op.size or 0) >= 2:
                    out.append(Fault('ioerror', op.index, 'half', e))
    return out


def enumerate_persistent_faults(log, edges_only=False):
    """I/O errors that persist (Fault.persist 'class' and 'all') starting at the entries of a recorded log.

    edges_only: start only at entries that are not in the interior of a run of consecutive data operations on one
    file (first and last write of a run, and every open / flush / close / rename / replace / remove ...)."""
    out = []
    for i, op in enumerate(log):
        if edges_only and op.name == 'write':
            prev_same = i > 0 and log[i - 1].name == 'write' and log[i - 1].path == op.path
            next_same = i + 1 < len(log) and log[i + 1].name == 'write' and log[i + 1].path == op.path
            if prev_same and next_same:
                continue
        err = 'ENOSPC' if OP_CLASS.get(op.name) in ('data', 'link', 'dir') else 'EIO'
        out.append(Fault('ioerror', op.index, 'none', err, persist='class'))
        out.append(Fault('ioerror', op.index, 'none', 'EIO', persist='all'))
    return out


def error_path_entries(reference_log, fault, faulted_log):
    """Indices of the entries that the run with the one-shot I/O error `fault` executed AFTER the failing entry and
    that are not the resumption of the normal sequence of operations (= the error-handling path): the continuation up
    to the point from which it coincides (names and paths) with a suffix of the reference log."""
    cont = faulted_log[fault.op + 1:]
    key = lambda o: (o.name, o.path)
    for t in range(len(cont) + 1):
        rest = cont[t:]
        s0 = len(reference_log) - len(rest)
        if s0 > fault.op and [key(o) for o in rest] == [key(o) for o in reference_log[s0:]]:
            return [o.index for o in cont[:t]]
    return [o.index for o in cont]


class FaultFile:
    """Unbuffered stand-in for the object returned by open() in a writing mode."""

    def __init__(self, fs, path, mode, encoding=None, errors=None, newline=None):
        self._fs = fs
        self._path = path
        self._rel = fs.rel(path)
        self.name = path
        self.mode = mode
        self._binary = 'b' in mode
        self.encoding = None if self._binary else (encoding or locale.getpreferredencoding(False) or 'utf-8')
        if self.encoding and self.encoding.lower() in ('ansi_x3.4-1968', 'ascii', 'us-ascii') and encoding is None:
            self.encoding = 'utf-8'   # Python's UTF-8 mode / C-locale coercion
        self.errors = errors or 'strict'
        if newline not in (None, '', '\n'):
            raise InterposerError('newline=%r is not modelled' % (newline,))
        raw_mode = ''.join(c for c in mode if c in 'rwxa+') + 'b'
        self._raw = _REAL['open'](path, raw_mode, buffering=0)
        self._buf = bytearray() if fs.buffered else None
        self.closed = False

    # ---- plumbing
    def _bytes(self, data):
        if self._binary:
            if isinstance(data, str):
                raise TypeError("a bytes-like object is required, not 'str'")
            return bytes(data)
        if not isinstance(data, str):
            raise TypeError('write() argument must be str, not %s' % type(data).__name__)
        return data.encode(self.encoding, self.errors)

    def _check_open(self):
        if self.closed:
            raise ValueError('I/O operation on closed file.')

    # ---- mutating operations (logged)
    def _emit(self, opname, b):
        """One logged operation that moves the bytes b to the file (possibly torn by the fault)."""
        fault = self._fs._begin(opname, self._path, len(b), rel=self._rel)
        if fault is not None:
            n = prefix_len(fault.prefix, len(b))
            if n:
                self._raw.write(b[:n])
            return fault
        if b:
            self._raw.write(b)
        return None

    def write(self, data):
        self._check_open()
        b = self._bytes(data)
        if self._buf is not None:
            # buffered model: like io.BufferedWriter the data stays in the process until the buffer is full, flush() or
            # close(); a crash loses it. Not an operation on the file, hence not a boundary of the write log.
            if self._fs.dead:
                raise Crash()
            self._buf += b
            if len(self._buf) >= BUFFER_SIZE:
                pending, self._buf = bytes(self._buf), bytearray()
                fault = self._emit('write', pending)
                if fault is not None:
                    self._fs._raise(fault, self._path)
            return len(data)
        fault = self._emit('write', b)
        if fault is not None:
            self._fs._raise(fault, self._path)
        return len(data)

    def writelines(self, lines):
        for line in lines:
            self.write(line)

    def flush(self):
        self._check_open()
        if self._buf is not None:
            pending, self._buf = bytes(self._buf), bytearray()
            fault = self._emit('flush', pending)
        else:
            fault = self._fs._begin('flush', self._path, rel=self._rel)
        if fault is not None:
            self._fs._raise(fault, self._path)

    def truncate(self, size=None):
        self._check_open()
        self._sync_for_read()
        fault = self._fs._begin('ftruncate', self._path, rel=self._rel)
        if fault is not None:
            self._fs._raise(fault, self._path)
        return self._raw.truncate(size)

    def close(self):
        if self.closed:
            return
        if self._fs.dead:
            # the process is gone: the descriptor disappears with it, nothing more reaches the disk
            self.closed = True
            self._raw.close()
            raise Crash()
        # unbuffered: closing the descriptor changes nothing on disk, so "crash before close" == "crash after close";
        # buffered: close() first moves the pending data to the file (which a fault may tear).
        # An I/O error reported by close() leaves the descriptor closed, as close(2) / BufferedWriter.close() do.
        if self._buf is not None:
            pending, self._buf = bytes(self._buf), bytearray()
            fault = self._emit('close', pending)
        else:
            fault = self._fs._begin('close', self._path, rel=self._rel)
        self.closed = True
        self._raw.close()
        if fault is not None:
            self._fs._raise(fault, self._path)

    # ---- non mutating
    def _sync_for_read(self):
        if self._buf:
            raise InterposerError('reading back / seeking in a file with pending buffered writes is not modelled (%s)' % self._path)

    def read(self, n=-1):
        self._check_open()
        self._sync_for_read()
        b = self._raw.read() if n is None or n < 0 else self._raw.read(n)
        return b if self._binary else b.decode(self.encoding, self.errors)

    def seek(self, *a):
        self._check_open()
        self._sync_for_read()
        return self._raw.seek(*a)

    def tell(self):
        self._check_open()
        return self._raw.tell()

    def fileno(self):
        raise InterposerError('fileno() of an interposed file was requested (%s): writes through the descriptor would '
                              'bypass the write log' % self._path)

    def readable(self):
        return '+' in self.mode or 'r' in self.mode

    def writable(self):
        return True

    def seekable(self):
        return True

    def isatty(self):
        return False

    def __enter__(self):
        self._check_open()
        return self

    def __exit__(self, *exc):
        self.close()
        return False

    def __del__(self):
        try:
            if not self.closed:
                self.closed = True
                self._raw.close()
        except BaseException:
            pass


class FaultFS:
    """Context manager. While active, mutating file operations on paths under `root` are logged and `fault` (if any) is
    injected at its log entry. Not re-entrant, not thread-safe (drive the code under test from one thread)."""

    def __init__(self, root, fault=None, buffered=False):
        """buffered=False: every write() of the code under test reaches the file immediately (each one is a boundary;
        models data being handed to the OS at any granularity). buffered=True: written data stays in the process until
        the buffer fills, flush() or close() (what Python's buffered files really do for small files); then the
        boundaries are open / [flush] / close / rename ... and a crash loses the pending data."""
        self.root = os.path.realpath(root)
        self.buffered = buffered
        self.fault = fault
        self.log = []
        self.dead = False
        self.fired = False
        self.crash_fired = False    # the then_crash stage of a two-stage fault was reached
        self.repeats = 0            # how many later operations a persistent error made fail
        self._fired_class = None
        self._dircache = {}     # valid for the lifetime of one FaultFS: the code under test does not re-point directories

    # ---- bookkeeping
    def inside(self, path):
        if isinstance(path, int):
            return False
        try:
            p = os.fspath(path)
        except TypeError:
            return False
        if isinstance(p, bytes):
            p = os.fsdecode(p)
        p = os.path.abspath(p)
        d, b = os.path.split(p)
        p = os.path.join(self._real_dir(d), b)
        return p == self.root or p.startswith(self.root + os.sep)

    def _real_dir(self, d):
        r = self._dircache.get(d)
        if r is None:
            r = self._dircache[d] = os.path.realpath(d)
        return r

    def rel(self, path):
        p = os.path.abspath(os.fspath(path))
        d, b = os.path.split(p)
        p = os.path.join(self._real_dir(d), b)
        r = os.path.relpath(p, self.root)
        d, b = os.path.split(r)
        if _UUID.fullmatch(b):
            r = os.path.join(d, '<tmp>')
        elif _UUID.search(b):
            r = os.path.join(d, _UUID.sub('<uuid>', b))
        return r

    def _begin(self, name, path, size=None, rel=None):
        """Registers an op. Returns the fault to inject at this op, or None."""
        if self.dead:
            raise Crash()
        idx = len(self.log)
        self.log.append(Op(idx, name, rel if rel is not None else self.rel(path), size))
        f = self.fault
        if f is None:
            return None
        if not self.fired:
            if f.op == idx:
                self.fired = True
                self._fired_class = OP_CLASS.get(name)
                return f
            return None
        if f.kind == 'ioerror':
            if f.then_crash is not None and idx == f.then_crash:
                self.crash_fired = True
                return Fault('crash', idx)
            if f.persist == 'all' or (f.persist == 'class' and OP_CLASS.get(name) == self._fired_class):
                self.repeats += 1
                return Fault('ioerror', idx, 'none', f.err)
        return None

    def _raise(self, fault, path):
        if fault.kind == 'crash':
            self.dead = True
            raise Crash()
        code = getattr(_errno, fault.err)
        raise OSError(code, os.strerror(code), os.fspath(path))

    def _simple(self, name, path, real, *a, **k):
        fault = self._begin(name, path)
        if fault is not None:
            self._raise(fault, path)
        return real(*a, **k)

    # ---- interposed entry points
    def _open(self, real):
        def opener(file, mode='r', buffering=-1, encoding=None, errors=None, newline=None, closefd=True, opener=None):
            writing = any(c in mode for c in 'wax+')
            if not writing or not self.inside(file):
                return real(file, mode, buffering, encoding, errors, newline, closefd, opener)
            if opener is not None:
                raise InterposerError('open(..., opener=) under the interposed root is not modelled')
            fault = self._begin('open', file)
            if fault is not None:
                self._raise(fault, file)
            return FaultFile(self, os.fspath(file), mode, encoding, errors, newline)
        return opener

    def _two(self, name, real):
        def f(src, dst, *a, **k):
            if (k.get('src_dir_fd') is None and k.get('dst_dir_fd') is None) and (self.inside(src) or self.inside(dst)):
                return self._simple(name, dst, real, src, dst, *a, **k)
            return real(src, dst, *a, **k)
        return f

    def _one(self, name, real):
        def f(path, *a, **k):
            if k.get('dir_fd') is None and self.inside(path):
                return self._simple(name, path, real, path, *a, **k)
            return real(path, *a, **k)
        return f

    def _makedirs(self, name, mode=0o777, exist_ok=False):
        if not self.inside(name):
            return _REAL['makedirs'](name, mode, exist_ok)
        if os.path.isdir(name) and exist_ok:
            return None          # nothing changes on disk: not a boundary
        return self._simple('makedirs', name, _REAL['makedirs'], name, mode, exist_ok)

    def _os_open(self, path, flags, mode=0o777, *, dir_fd=None):
        if dir_fd is None and self.inside(path) and flags & (os.O_WRONLY | os.O_RDWR | os.O_CREAT | os.O_TRUNC | os.O_APPEND):
            raise InterposerError('os.open(%r) for writing under the interposed root is not modelled' % (path,))
        return _REAL['os_open'](path, flags, mode, dir_fd=dir_fd)

    def _copyfile(self, src, dst, *, follow_symlinks=True):
        if not self.inside(dst):
            return _REAL['copyfile'](src, dst, follow_symlinks=follow_symlinks)
        with _REAL['open'](src, 'rb') as f:
            data = f.read()
        out = builtins.open(dst, 'wb')       # the interposed open
        try:
            chunk = 64 * 1024
            for i in range(0, max(len(data), 1), chunk):
                out.write(data[i:i + chunk])
        finally:
            out.close()
        return dst

    def _rmtree(self, path, *a, **k):
        if self.inside(path):
            return self._simple('rmtree', path, _REAL['rmtree'], path, *a, **k)
        return _REAL['rmtree'](path, *a, **k)

    def __enter__(self):
        if _ACTIVE[0] is not None:
            raise InterposerError('FaultFS is not re-entrant')
        _ACTIVE[0] = self
        builtins.open = self._open(_REAL['open'])
        io.open = builtins.open
        os.rename = self._two('rename', _REAL['rename'])
        os.replace = self._two('replace', _REAL['replace'])
        os.symlink = self._two('symlink', _REAL['symlink'])
        os.link = self._two('link', _REAL['link'])
        os.remove = self._one('remove', _REAL['remove'])
        os.unlink = self._one('remove', _REAL['unlink'])
        os.mkdir = self._one('mkdir', _REAL['mkdir'])
        os.rmdir = self._one('rmdir', _REAL['rmdir'])
        os.truncate = self._one('truncate', _REAL['truncate'])
        os.makedirs = self._makedirs
        os.open = self._os_open
        shutil.copyfile = self._copyfile
        shutil.rmtree = self._rmtree
        return self

    def __exit__(self, *exc):
        builtins.open = _REAL['open']
        io.open = _REAL['io_open']
        os.rename, os.replace, os.remove, os.unlink = _REAL['rename'], _REAL['replace'], _REAL['remove'], _REAL['unlink']
        os.makedirs, os.mkdir, os.rmdir = _REAL['makedirs'], _REAL['mkdir'], _REAL['rmdir']
        os.symlink, os.link, os.truncate, os.open = _REAL['symlink'], _REAL['link'], _REAL['truncate'], _REAL['os_open']
        shutil.copyfile, shutil.rmtree = _REAL['copyfile'], _REAL['rmtree']
        _ACTIVE[0] = None
        return False

    def log_json(self):
        return [op.as_list() for op in self.log]
