"""E3 — file fault / crash interposer (DESIGN.md §2.3).

`FaultFS(root)` interposes, for paths under `root` only, the Python-level file operations that can change what is on
disk: builtins.open / io.open for writing (and the returned file object's write / writelines / flush / truncate / close),
os.rename, os.replace, os.remove, os.unlink, os.makedirs, os.mkdir, os.rmdir, os.symlink, os.link, os.truncate,
shutil.copyfile / copy / copy2 / move. Every such operation is one entry of a numbered *write log*. A `Fault` names an
entry of the log and what happens there:

* ``crash``   – `Crash` (a BaseException) is raised at that entry; for a write optionally after a prefix of the data
                has reached the file. From then on the interposer is *dead*: every later interposed operation (for
                instance the close() of a `with` block, or a rename in a `finally`) raises `Crash` again and does not
                touch the disk, so the directory is exactly what a reader would find after the process died there.
* ``ioerror`` – `OSError(errno)` is raised by that entry (for a write optionally after a prefix was written, for
                close after the descriptor was really closed); execution continues in the code under test and every
                later operation works normally (single-fault assumption).

An I/O error may also *persist* (Fault.persist: every later operation of the same class / every later operation of
the update fails too) or be followed by a crash at an entry of the error-handling path (Fault.then_crash).

Two file models (FaultFS(buffered=...)): unbuffered (default) - the bytes of every write() are in the real file when
write() returns, every write() is a log entry and the scratch directory equals what the operating system would hold;
buffered - written data stays in the process until flush() / close() / 8 KiB, like Python's buffered files, so that
only open / flush / close / rename ... are log entries and a crash loses the pending data (this exposes "rename before
close"). `python -m verif.faultfs.selftest` checks the machinery itself.
"""
from .interposer import (Crash, Fault, FaultFS, Op, enumerate_faults, enumerate_persistent_faults,  # noqa: F401
                         error_path_entries, describe_fault, OP_CLASS)
