"""Shared runner for all checks: collectors, process pool, evidence, known findings, replay files.

A property module (verif/props/cXX.py) provides

    PROPERTY = 'C09'
    LEVEL = 'exploration' | 'model_checking' | 'fault_enumeration'
    RULE = '...'                      # how cases are enumerated / what is non-trivial
    ASSUMPTIONS = [...]
    def run(ctx) -> None              # enumerates, calls ctx.* (or ctx.pmap with module-level workers)
    def replay(ctx, case) -> None     # re-executes ONE case (same ctx API)
    KNOWN_SELECTORS = {name: fn(failure_dict) -> bool}   # optional

Workers return `Collector` objects which are merged in the parent.
"""
import hashlib
import json
import multiprocessing
import os
import sys
import time
import traceback

VERIF = os.path.dirname(os.path.dirname(os.path.dirname(os.path.abspath(__file__))))
REPO = os.environ.get('VERIF_REPO', '/repo')


class HarnessError(Exception):
    """A problem of the verification machinery itself (never reported as a VIOLATION)."""


def setup_repo_path():
    """Make `import experiment` / `import tests` resolve to the tree under check."""
    import warnings
    warnings.filterwarnings('ignore')
    os.environ['PYTHONWARNINGS'] = 'ignore'
    # byte-code cache outside /repo (keyed by source mtime/size, so edits of /repo are always picked up)
    if sys.pycache_prefix is None:
        base = '/dev/shm' if os.access('/dev/shm', os.W_OK) else '/tmp'
        sys.pycache_prefix = os.path.join(base, 'verif-pycache-%d' % os.getuid())
    sys.dont_write_bytecode = False
    for p in (os.path.join(REPO, 'python'), REPO):
        if p in sys.path:
            sys.path.remove(p)
    sys.path.insert(0, REPO)
    sys.path.insert(0, os.path.join(REPO, 'python'))


def canon(obj):
    return json.dumps(obj, sort_keys=True, default=repr, ensure_ascii=True)


def case_id(case):
    return hashlib.sha1(canon(case).encode()).hexdigest()[:12]


class Collector:
    """Mergeable counters. Everything reported in the evidence comes from here."""
    MAX_FAIL = 400
    MAX_SAMPLES = 6

    def __init__(self):
        self.evaluations = 0
        self.nontrivial = set()      # distinct keys of non-trivial cases
        self.outcomes = {}           # outcome label -> count
        self.samples = []
        self.failures = []           # dicts: case, why, observed, sig
        self.n_failures = 0
        self.states = set()          # fingerprints (model_checking)
        self.transitions = 0
        self.traces = 0              # executions that ran on the implementation
        self.extra = {}              # named integer counters
        self.notes = []              # caps hit etc.
        self.payload = []            # arbitrary picklable data returned by workers
        self.known_counts = {}       # known-finding id -> number of failing cases attributed to it
        self.known_examples = {}     # known-finding id -> a few failures
        self.classifier = None       # fn(failure) -> known-finding id or None (set by the runner)

    # ---- recording API
    def evaluated(self, n=1):
        self.evaluations += n

    def nontriv(self, key):
        self.nontrivial.add(key if isinstance(key, str) else canon(key))

    def outcome(self, label, n=1):
        label = label if isinstance(label, str) else canon(label)
        self.outcomes[label] = self.outcomes.get(label, 0) + n

    def sample(self, case):
        if len(self.samples) < self.MAX_SAMPLES:
            self.samples.append(case)

    def state(self, fp):
        self.states.add(fp if isinstance(fp, (str, int)) else canon(fp))

    def count(self, name, n=1):
        self.extra[name] = self.extra.get(name, 0) + n

    def note(self, text):
        if text not in self.notes:
            self.notes.append(text)

    def fail(self, case, why, observed=None, sig=None):
        """Record a property failure for `case` (a JSON-able description sufficient to replay it).

        Attribution to a known finding happens here, for EVERY failing case (so no failure is ever dropped
        unclassified); only a few examples per known finding are kept, all unattributed failures are kept up to MAX_FAIL."""
        self.n_failures += 1
        f = {'case': case, 'why': why, 'observed': observed, 'sig': sig or why}
        kid = self.classifier(f) if self.classifier is not None else None
        if kid is not None:
            self.known_counts[kid] = self.known_counts.get(kid, 0) + 1
            ex = self.known_examples.setdefault(kid, [])
            if len(ex) < 3:
                ex.append(f)
            return
        if len(self.failures) < self.MAX_FAIL:
            self.failures.append(f)

    def merge(self, other):
        self.evaluations += other.evaluations
        self.nontrivial |= other.nontrivial
        for k, v in other.outcomes.items():
            self.outcomes[k] = self.outcomes.get(k, 0) + v
        for s in other.samples:
            self.sample(s)
        room = self.MAX_FAIL - len(self.failures)
        self.failures.extend(other.failures[:max(0, room)])
        self.n_failures += other.n_failures
        self.states |= other.states
        self.transitions += other.transitions
        self.traces += other.traces
        for k, v in other.extra.items():
            self.extra[k] = self.extra.get(k, 0) + v
        for n in other.notes:
            self.note(n)
        self.payload.extend(other.payload)
        for k, v in other.known_counts.items():
            self.known_counts[k] = self.known_counts.get(k, 0) + v
        for k, v in other.known_examples.items():
            ex = self.known_examples.setdefault(k, [])
            ex.extend(v[:max(0, 3 - len(ex))])


def _worker_entry(args):
    modname, fname, item, tier, seed, prop = args
    setup_repo_path()
    import importlib
    mod = importlib.import_module(modname)
    col = Collector()
    col.classifier = make_classifier(importlib.import_module('verif.props.%s' % prop.lower()), prop)
    try:
        getattr(mod, fname)(col, item, tier, seed)
    except HarnessError:
        raise
    except Exception:
        raise HarnessError('worker %s.%s failed on item %r:\n%s' % (modname, fname, item, traceback.format_exc()))
    col.classifier = None
    return col


class Context(Collector):
    def __init__(self, prop, tier, seed, jobs):
        super().__init__()
        self.prop = prop
        self.tier = tier
        self.seed = seed
        self.jobs = jobs
        self.t0 = time.time()

    @property
    def thorough(self):
        return self.tier == 'thorough'

    def pmap(self, module, fname, items, maxtasksperchild=None, chunksize=1, start='fork'):
        """Run module.fname(col, item, tier, seed) for every item in a process pool and merge the collectors."""
        items = list(items)
        if not items:
            return
        args = [(module, fname, it, self.tier, self.seed, self.prop) for it in items]
        if self.jobs <= 1 or len(items) == 1:
            for a in args:
                self.merge(_worker_entry(a))
            return
        mp = multiprocessing.get_context(start)
        with mp.Pool(min(self.jobs, len(items)), maxtasksperchild=maxtasksperchild) as pool:
            for col in pool.imap_unordered(_worker_entry, args, chunksize=chunksize):
                self.merge(col)


def load_known():
    p = os.path.join(VERIF, 'known_findings.json')
    if not os.path.exists(p):
        return []
    with open(p) as f:
        out = json.load(f)['findings']
    # development aid only (never set by MANIFEST commands): entries proposed by a check's author, not yet accepted
    if os.environ.get('VERIF_PROPOSED_KNOWN') == '1':
        d = os.path.join(VERIF, 'proposed_known')
        for n in sorted(os.listdir(d)) if os.path.isdir(d) else []:
            with open(os.path.join(d, n)) as f:
                out.extend(json.load(f)['findings'])
    return out


def load_schema():
    for p in ('/root/.vp/EVIDENCE.schema.json', os.path.join(VERIF, 'schemas', 'EVIDENCE.schema.json')):
        if os.path.exists(p):
            with open(p) as f:
                return json.load(f)
    return None


def write_evidence(mod, ctx, violations):
    cov = {
        'evaluations': ctx.evaluations,
        'distinct_nontrivial': len(ctx.nontrivial),
        'rule': mod.RULE,
        'samples': ctx.samples[:Collector.MAX_SAMPLES],
        'distinct_outcomes': len(ctx.outcomes),
        'outcomes': dict(sorted(ctx.outcomes.items(), key=lambda kv: -kv[1])[:25]),
        'exhaustive': bool(getattr(mod, 'EXHAUSTIVE', True)) and not ctx.notes_caps(),
        'failures_seen': ctx.n_failures,
        'known_findings_matched': ctx.extra.get('_known', 0),
        'caps_and_notes': ctx.notes,
    }
    if mod.LEVEL == 'model_checking':
        cov['states'] = len(ctx.states)
        cov['transitions'] = ctx.transitions
        cov['traces_validated_against_impl'] = ctx.traces
        cov['explanation'] = getattr(mod, 'MC_EXPLANATION', '')
    for k, v in ctx.extra.items():
        if not k.startswith('_'):
            cov[k] = v
    ev = {
        'property_id': ctx.prop, 'tier': ctx.tier, 'seed': ctx.seed, 'level': mod.LEVEL,
        'coverage': cov, 'assumptions': list(mod.ASSUMPTIONS), 'wall_s': round(time.time() - ctx.t0, 2),
        'violations': violations,
    }
    schema = load_schema()
    if schema is not None:
        import jsonschema
        jsonschema.validate(ev, schema)
    os.makedirs(os.path.join(VERIF, 'evidence'), exist_ok=True)
    path = os.path.join(VERIF, 'evidence', '%s.json' % ctx.prop)
    tmp = path + '.tmp'
    with open(tmp, 'w') as f:
        json.dump(ev, f, indent=1, sort_keys=True, default=repr)
        f.write('\n')
    os.replace(tmp, path)
    return path


def _notes_caps(self):
    return any(n.startswith('CAP') for n in self.notes)


Collector.notes_caps = _notes_caps


def make_classifier(mod, prop):
    selectors = getattr(mod, 'KNOWN_SELECTORS', {})
    known = [k for k in load_known() if k['property'] == prop and k['status'] == 'known']
    for k in known:
        if k['selector'] not in selectors:
            raise HarnessError('known finding %s names unknown selector %s' % (k['id'], k['selector']))

    def classify(f):
        for k in known:
            try:
                if selectors[k['selector']](f):
                    return k['id']
            except Exception:
                raise HarnessError('selector %s raised:\n%s' % (k['selector'], traceback.format_exc()))
        return None

    return classify


def attribute_failures(mod, ctx):
    """Returns (matched: id -> [entry, count], violations). Attribution itself happened in Collector.fail()."""
    known = {k['id']: k for k in load_known() if k['property'] == ctx.prop and k['status'] == 'known'}
    matched = {kid: [known[kid], n] for kid, n in ctx.known_counts.items()}
    violations = list(ctx.failures)
    unattributed = ctx.n_failures - sum(ctx.known_counts.values())
    if unattributed > len(ctx.failures):
        ctx.note('CAP: only the first %d of %d unattributed failing cases were kept' % (len(ctx.failures), unattributed))
    return matched, violations


def write_replay(prop, f):
    d = os.path.join(VERIF, 'replays', prop)
    os.makedirs(d, exist_ok=True)
    path = os.path.join(d, '%s.json' % case_id(f['case']))
    with open(path, 'w') as fh:
        json.dump({'property': prop, 'case': f['case'], 'why': f['why'], 'observed': f['observed'], 'sig': f['sig']},
                  fh, indent=1, sort_keys=True, default=repr)
        fh.write('\n')
    return path


def confirm_violations(prop, tier, violations, ctx):
    """Every execution is supposed to be a deterministic function of its case. Before a failure class is reported, its first
    cases are replayed in a FRESH process; a class none of whose replayed cases fails again is an artefact of the exploring
    process (state left behind by earlier cases) and is not reported as a violation: it is printed as UNCONFIRMED and counted in
    the evidence. Classes are only dropped when the fresh replay cleanly says "no longer violates" (exit 0); anything else
    (exit 1, harness error, too many classes to confirm) keeps them."""
    import subprocess
    by_sig = {}
    for f in violations:
        by_sig.setdefault(f['sig'], []).append(f)
    if not by_sig or len(by_sig) > 8:
        return violations
    dropped = set()
    for sig, fs in by_sig.items():
        verdicts = []
        for f in fs[:3]:
            path = write_replay(prop, f)
            r = subprocess.run([sys.executable, os.path.join(VERIF, 'vcheck'), prop, '--tier', tier, '--replay', path],
                               stdout=subprocess.PIPE, stderr=subprocess.STDOUT, text=True)
            verdicts.append(r.returncode)
            if r.returncode != 0:
                break
        if verdicts and all(v == 0 for v in verdicts):
            dropped.add(sig)
            print('UNCONFIRMED: property=%s %d failing case(s) of class %s did not fail again when replayed in a fresh process '
                  '(first: %s)' % (prop, len(fs), sig, str(fs[0]['why'])[:300]))
            ctx.count('failures_not_reproduced_in_a_fresh_process', len(fs))
            ctx.note('failure class %s (%d cases) was not reproduced by a replay in a fresh process and is not reported' % (sig, len(fs)))
    return [f for f in violations if f['sig'] not in dropped]


def main(argv=None):
    import argparse
    ap = argparse.ArgumentParser(prog='vcheck')
    ap.add_argument('prop')
    ap.add_argument('--tier', default=os.environ.get('VERIF_TIER', 'quick'), choices=['quick', 'thorough'])
    ap.add_argument('--replay')
    ap.add_argument('--jobs', type=int, default=int(os.environ.get('VERIF_JOBS', '16')))
    ap.add_argument('--max-report', type=int, default=12)
    a = ap.parse_args(argv)
    try:
        seed = int(os.environ.get('VERIF_SEED', '0'))
    except ValueError:
        seed = 0
    os.environ.setdefault('PYTHONHASHSEED', '0')
    setup_repo_path()
    import importlib
    import logging
    logging.disable(logging.CRITICAL)
    prop = a.prop.upper()
    try:
        mod = importlib.import_module('verif.props.%s' % prop.lower())
        ctx = Context(prop, a.tier, seed, a.jobs)
        ctx.classifier = make_classifier(mod, prop)
        if a.replay:
            with open(a.replay) as f:
                rp = json.load(f)
            # replay twice: must be deterministic
            sigs = []
            for _ in range(2):
                c2 = Context(prop, a.tier, seed, 1)
                c2.classifier = None
                mod.replay(c2, rp['case'])
                sigs.append(sorted(canon([x['sig'], x['why']]) for x in c2.failures))
            if sigs[0] != sigs[1]:
                raise HarnessError('replay of %s is not deterministic: %r vs %r' % (a.replay, sigs[0], sigs[1]))
            mod.replay(ctx, rp['case'])
            matched, violations = attribute_failures(mod, ctx)
            for kid, (k, n) in sorted(matched.items()):
                print('KNOWN-FINDING: property=%s %s' % (prop, k['what']))
            for f in violations:
                print('VIOLATION property=%s replay=%s' % (prop, a.replay))
                print('  why: %s' % f['why'])
                print('  observed: %s' % canon(f['observed'])[:2000])
            if ctx.n_failures == 0:
                print('replay: the case no longer violates %s' % prop)
            return 1 if violations else 0
        # replay files are regenerated by every run: drop the ones of earlier runs (possibly against other trees)
        import shutil
        shutil.rmtree(os.path.join(VERIF, 'replays', prop), ignore_errors=True)
        mod.run(ctx)
        matched, violations = attribute_failures(mod, ctx)
        ctx.extra['_known'] = sum(n for _, n in matched.values())
        for kid, (k, n) in sorted(matched.items()):
            print('KNOWN-FINDING: property=%s %s [%d failing cases attributed, id=%s]' % (prop, k['what'], n, kid))
        violations = confirm_violations(prop, a.tier, violations, ctx)
        seen_sig = set()
        reported = 0
        for f in violations:
            if f['sig'] in seen_sig:
                continue
            seen_sig.add(f['sig'])
            if reported >= a.max_report:
                continue
            reported += 1
            path = write_replay(prop, f)
            print('VIOLATION property=%s replay=%s' % (prop, path))
            print('  why: %s' % str(f['why'])[:1500])
        if violations:
            print('%d violating cases in %d distinct classes' % (len(violations), len(seen_sig)))
        nviol = ctx.n_failures - sum(ctx.known_counts.values()) - ctx.extra.get('failures_not_reproduced_in_a_fresh_process', 0)
        if len(ctx.outcomes) <= 1 and ctx.evaluations > 1 and not getattr(mod, 'SINGLE_OUTCOME_OK', False):
            raise HarnessError('vacuous run: %d evaluations produced %d distinct outcomes' % (ctx.evaluations, len(ctx.outcomes)))
        path = write_evidence(mod, ctx, nviol)
        print('%s %s: evaluations=%d distinct_nontrivial=%d outcomes=%d states=%d transitions=%d failures=%d known=%d wall=%.1fs evidence=%s'
              % (prop, a.tier, ctx.evaluations, len(ctx.nontrivial), len(ctx.outcomes), len(ctx.states), ctx.transitions,
                 ctx.n_failures, ctx.extra.get('_known', 0), time.time() - ctx.t0, path))
        return 1 if violations else 0
    except HarnessError as e:
        print('HARNESS-ERROR property=%s: %s' % (prop, e))
        return 2
    except Exception:
        print('HARNESS-ERROR property=%s: unexpected exception in the harness:\n%s' % (prop, traceback.format_exc()))
        return 2
