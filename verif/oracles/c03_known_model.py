"""Model of the KNOWN textual-rewriting defects of C03 (accepted known findings), used only for attribution.

It predicts, string for string, what the rewriting of references does today to a generated document: the relative
spelling of every replicated producer is translated as a plain substring (longest key first) in the copies, and the
aggregating rewrite uses the reference as an unescaped regular expression, takes the path of the first match for all
matches and stops after the first spelling that changed the string.  A failing case is attributed to a known finding
only if the observed expansion equals this prediction exactly; any other corruption (different order of replacement,
another spelling hit, ...) is a different violation and is reported.

Never used to judge a case.  Must not import `experiment.*`.
"""
import re

from verif.oracles.c03_replicate import parse_ref, direct_names


def fmt(producer, filename, method, stage=None, replica=None):
    if replica is not None:
        producer = '%s%d' % (producer, replica)
    s = '%s:%s' % (producer, method) if filename is None else '%s/%s:%s' % (producer, filename, method)
    return s if stage is None else 'stage%d.%s' % (stage, s)


def _split(text, stage, directs):
    """(stage, producer, filename as written, method) of a component reference, None for anything else."""
    if parse_ref(text, stage, directs) is None or parse_ref(text, stage, directs)[0] != 'comp':
        return None
    body, method = text.split(':')
    head, sep, rest = body.partition('/')
    m = re.fullmatch(r'stage([0-9]+)\.(.+)', head)
    if m:
        return int(m.group(1)), m.group(2), (rest if sep else None), method
    return stage, head, (rest if sep else None), method


def _replace_strings(comp, func):
    return {'references': [func(r) for r in comp['references']], 'arguments': func(comp['arguments'])}


def predict(case, doc, rep):
    """case/doc: abstract case and its FlowIR document; rep: replica count per component index (None = single).
    Returns {'stage<N>.<name>': {'references': [...], 'arguments': str}} as FlowIRConcrete.replicate() gives today."""
    directs = direct_names(case)
    comps = doc['components']
    count_of = dict(((c['stage'], c['name']), rep[j]) for j, c in enumerate(comps))
    out = {}
    for j, c in enumerate(comps):
        stage = c['stage']
        me = {'references': list(c.get('references', [])), 'arguments': c['command']['arguments']}
        replicated_refs = []
        for r in me['references']:
            p = _split(r, stage, directs)
            if p is not None and count_of.get((p[0], p[1])) is not None:
                replicated_refs.append(fmt(p[1], p[2], p[3], p[0]))
        aggregate = bool((c.get('workflowAttributes') or {}).get('aggregate'))
        counts = set(count_of[(p[0], p[1])] for p in (_split(r, stage, directs) for r in replicated_refs))
        if aggregate:
            n = counts.pop() if counts else 0
            out['stage%d.%s' % (stage, c['name'])] = _aggregate(me, n, replicated_refs, stage, directs)
        elif rep[j] is not None:
            for i in range(rep[j]):
                out['stage%d.%s%d' % (stage, c['name'], i)] = _replica(me, i, replicated_refs, stage, directs)
        else:
            out['stage%d.%s' % (stage, c['name'])] = me
    return out


def _replica(me, i, refs, owner_stage, directs):
    translation = {}
    for original in refs:
        st, prod, fn, method = _split(original, owner_stage, directs)
        rewritten = fmt(prod, fn, method, st, i)
        translation[fmt(prod, fn, method, st)] = rewritten
        translation[fmt(prod, fn, method)] = rewritten
    keys = sorted(translation, key=len, reverse=True)

    def func(s):
        for k in keys:
            s = s.replace(k, translation[k])
        return s
    return _replace_strings(me, func)


def _aggregate(me, count, refs, comp_stage, directs):
    tmap = {}
    for ref in refs:
        for i in range(count):
            st, prod, fn, method = _split(ref, comp_stage, directs)
            rewritten = fmt(prod, fn, method, st, i)
            for k in (fmt(prod, fn, method, st), fmt(prod, fn, method)):
                tmap.setdefault(k, []).append(rewritten)

    def func(string):
        for ref in refs:
            st, prod, fn, method = _split(ref, None, directs)
            update = [ref]
            if st is not None:
                update.append(fmt(prod, fn, method))
            for u in update:
                expression = re.compile(r"%s((?:/[\w.*]+)+,*)?" % u)
                orig = string
                m = expression.search(string)
                if m is not None:
                    if m.group(1) is not None:
                        path = m.group(1)
                        sep = ' '
                        if path[-1] == ',':
                            sep = ','
                            path = path[:-1]
                        string = expression.sub(sep.join('%s%s' % (el, path) for el in tmap[u]), string)
                    else:
                        string = string.replace(u, ' '.join(tmap[u]))
                    if string != orig:
                        break
        return string
    res = _replace_strings(me, func)
    refs_out = []
    for r in res['references']:
        refs_out.extend(r.split())
    res['references'] = refs_out
    return res
