"""Reference model for C10: token-wise *simultaneous* substitution of declared data references.

Written from the property statement only (must not import experiment.*):

  "Resolving a component's arguments replaces every occurrence of each declared reference, in either spelling, by that
   reference's own value (a path, or the contents of the referenced file for output references) and leaves all other
   text untouched. The result does not depend on the order in which references are declared or on one producer's name
   being part of another's."

An *occurrence of a reference* is a maximal run  [\\w./#-]+ ':' method  in the argument string (so `BA:ref` is one
occurrence of BA's reference and contains no occurrence of A's).  The run is matched against the declared references
as a parsed tuple (stage, producer, file, method); the relative spelling (no `stageN.` prefix) denotes the consumer's
own stage (or a reserved-folder / direct reference, which has no stage at all).

Inputs the statement leaves open raise `GreyZone` so that a generator can never silently feed them to the judge.
"""
import re

METHODS = ('copy', 'link', 'ref', 'copyout', 'extract', 'output', 'loopref', 'loopoutput')
SUBSTITUTED = ('ref', 'output')

_CANDIDATE = re.compile(r'([\w./#-]+):([A-Za-z]+)')
_STAGE = re.compile(r'stage([0-9]+)\.(.+)\Z', re.S)


class GreyZone(ValueError):
    """The argument string contains something the property statement does not decide."""


def parse_token(producer_part, method):
    """'stage0.BA/f.txt', 'ref' -> (0, 'BA', 'f.txt', 'ref');  'BA' -> (None, 'BA', None, 'ref')."""
    m = _STAGE.match(producer_part)
    if m:
        stage, rest = int(m.group(1)), m.group(2)
    else:
        stage, rest = None, producer_part
    if '/' in rest:
        name, file = rest.split('/', 1)
    else:
        name, file = rest, None
    if not name:
        raise GreyZone('empty producer in %r' % producer_part)
    return stage, name, file, method


def spelling(stage, name, file, method, how):
    """Canonical spellings of a reference. how='abs' | 'rel'. Direct references (stage None) have one spelling."""
    prod = name if file is None else '%s/%s' % (name, file)
    if how == 'abs' and stage is not None:
        return 'stage%d.%s:%s' % (stage, prod, method)
    return '%s:%s' % (prod, method)


def substitute(arguments, consumer_stage, declared):
    """declared: iterable of dicts {stage: int|None, name, file: str|None, method, value: str}.

    Returns (result, used) where used is the list of indexes into `declared` in order of occurrence.
    The order of `declared` is irrelevant by construction (lookup by parsed key).
    """
    table = {}
    declared = list(declared)
    for i, d in enumerate(declared):
        key = (d['stage'], d['name'], d['file'], d['method'])
        if key in table:
            raise GreyZone('reference declared twice: %r' % (key,))
        table[key] = i
    out = []
    used = []
    pos = 0
    for m in _CANDIDATE.finditer(arguments):
        prod, method = m.group(1), m.group(2)
        if method not in METHODS:
            raise GreyZone('%r looks like a reference with an unknown method' % m.group(0))
        nxt = arguments[m.end():m.end() + 1]
        if nxt == ':' or re.match(r'\w', nxt):
            raise GreyZone('%r is not delimited (followed by %r)' % (m.group(0), nxt))
        stage, name, file, method = parse_token(prod, method)
        if stage is not None:
            idx = table.get((stage, name, file, method))
        else:
            idx = table.get((consumer_stage, name, file, method))
            direct = table.get((None, name, file, method))
            if idx is not None and direct is not None:
                raise GreyZone('%r is both a component and a direct reference' % m.group(0))
            if idx is None:
                idx = direct
            if idx is None and any(k[1:] == (name, file, method) for k in table):
                raise GreyZone('relative spelling %r of a reference to another stage' % m.group(0))
        if idx is None:
            raise GreyZone('undeclared reference %r' % m.group(0))
        if method not in SUBSTITUTED:
            raise GreyZone('occurrence of a %s reference %r in the arguments' % (method, m.group(0)))
        out.append(arguments[pos:m.start()])
        out.append(declared[idx]['value'])
        used.append(idx)
        pos = m.end()
    out.append(arguments[pos:])
    return ''.join(out), used


def referenced_stdout_stream(indexes):
    """Which archived stdout stream a file-less :output reference to a REPEATING producer denotes.

    The statement says "the contents of the referenced file"; for a repeating producer the documentation of
    ComponentSpecification.path_to_stdout defines that file: "Returns most recently generated file for
    RepeatingEngines (... indexed stdout files under a `streams` folder ...)". Streams are numbered by repetition,
    so the most recently generated one is the one with the numerically highest index."""
    indexes = [int(i) for i in indexes]
    if not indexes or any(i < 0 for i in indexes):
        raise GreyZone('no archived stream: the statement does not say what a missing :output resolves to')
    return max(indexes)


def selftest():
    assert referenced_stdout_stream([7, 8, 9, 10]) == 10 and referenced_stdout_stream([99, 100]) == 100
    assert referenced_stdout_stream([3]) == 3 and referenced_stdout_stream([2, 10]) == 10

    d = [dict(stage=0, name='A', file=None, method='ref', value='/p/0/A'),
         dict(stage=1, name='A', file=None, method='ref', value='/p/1/A'),
         dict(stage=0, name='BA', file='f.txt', method='output', value='x A:ref y'),
         dict(stage=None, name='data', file='f.txt', method='ref', value='/p/data/f.txt')]
    r, used = substitute('k=A:ref stage0.A:ref/sub -o stage0.BA/f.txt:output BA A data/f.txt:ref', 1, d)
    assert r == 'k=/p/1/A /p/0/A/sub -o x A:ref y BA A /p/data/f.txt', r
    assert used == [1, 0, 2, 3]
    r2, _ = substitute('k=A:ref stage0.A:ref/sub -o stage0.BA/f.txt:output BA A data/f.txt:ref', 1, list(reversed(d)))
    assert r2 == r
    for bad in ('BA:ref', 'stage0.A:refs', 'A:copy', 'A:foo', 'A:ref:ref', 'A:ref_1', 'A:ref9'):
        try:
            substitute(bad, 1, d)
        except GreyZone:
            pass
        else:
            raise AssertionError(bad)
    try:
        substitute('A:ref', 1, d[:1])
    except GreyZone:
        pass
    else:
        raise AssertionError('cross-stage relative')
    return True
