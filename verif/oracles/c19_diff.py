"""C19 oracle helper: typed structural difference of two observations (plain dicts / lists / scalars).

Must not import experiment.*.  The observation of an instance description is

    {'components': {'stage<i>.<name>': {'config': {...resolved configuration...},
                                        'references': [...], 'variables': {...}}},
     'environments': {<lower-case name>: {VAR: str}},
     'application-dependencies': [...], 'virtual-environments': [...],
     'status': {<stage index>: {...}}, 'output': {<name>: {...}}}

and the property says: observation(description that was written) == observation(description that was loaded).
Two scalars are equal when they are the same number (int/float, bool excluded) or have the same type and value.
A dictionary key that is absent is the same as a key whose value is None.
"""


def drop_empty(entry):
    """status / output entries: a key that is absent, None, '' or [] means the same to every consumer
    (`.get('arguments', '')`, `.get('references', [])`, `.get('stages', [])`, `.get('description', '')`)."""
    return {k: v for k, v in entry.items() if v is not None and v != '' and v != []}


def _is_num(x):
    return isinstance(x, (int, float)) and not isinstance(x, bool)


def same_scalar(a, b):
    if _is_num(a) and _is_num(b):
        return float(a) == float(b)
    return type(a) is type(b) and a == b


def diff(a, b, path=()):
    """Yields (path tuple, kind, a, b) with kind in lost | added | changed | type."""
    if isinstance(a, dict) and isinstance(b, dict):
        for k in sorted(set(a) | set(b), key=str):
            # an absent key and a key whose value is None are the same observation
            if k not in b:
                if a[k] is not None:
                    yield (path + (k,), 'lost', a[k], None)
            elif k not in a:
                if b[k] is not None:
                    yield (path + (k,), 'added', None, b[k])
            else:
                for d in diff(a[k], b[k], path + (k,)):
                    yield d
        return
    if isinstance(a, list) and isinstance(b, list):
        if len(a) != len(b):
            yield (path, 'changed', a, b)
            return
        for i, (x, y) in enumerate(zip(a, b)):
            for d in diff(x, y, path + (i,)):
                yield d
        return
    if isinstance(a, (dict, list)) or isinstance(b, (dict, list)):
        yield (path, 'type', a, b)
        return
    if not same_scalar(a, b):
        kind = 'changed'
        if a is not None and b is None:
            kind = 'lost'
        elif a is None and b is not None:
            kind = 'added'
        elif type(a) is not type(b) and not (_is_num(a) and _is_num(b)):
            kind = 'type'
        yield (path, kind, a, b)


def path_str(path):
    return '.'.join(str(p) for p in path)
