"""C16 reference model: canonical *work descriptors* of the components of a "world".

Written from the property statement only; imports nothing from `experiment.*`.

A world (see verif/gen/c16_worlds.py for the generator and the on-disk realisation) is a JSON-able dict

    comps   : [ {name, stage, exe, args, refs, backend, vars, ...} ]
              exe  : str | {'v': variable}                      (variable indirection)
              args : [ part ]  part = str | {'r': i} | {'v': variable}; the argument string is the concatenation
              refs : [ {prod: None|component name, path: str|None, method: str, abs: bool} ]
                     prod None -> a file that no component produces: 'data/..', 'input/..' or 'EXT/..' (absolute path)
                     path None (with prod) -> the working directory of the producer; with 'stdout': True -> what the
                     producer printed (`<producer>:output`): out.stdout, or for a repeating producer (comp['repeat'] =
                     repeatInterval) the most recent streams/<index>.stdout
              backend : None | {'kind': 'local'|'kubernetes'|'lsf'|'docker', 'image': str|None}
    gvars/svars : global / per stage variables
    files   : {package relative path: content}      ext: {path under the external directory: content}
              (a content is a str or a compact spec of a long text, see expand_content; 'bin/..' files are scripts)
    environments : {name: {variable: value}} (constant, never varied) and comp['env'] = name
    outputs : {component name: {relative path: content}}  files "produced" by components
    remove  : ['data/x' | 'EXT/x' | '<comp>/<path>'] files deleted after the instance was created (missing inputs)

The statement:  two components get the same strong hash  <=>  same executable, same arguments after every reference
has been replaced by the hash of the content it refers to, files with equal contents consumed through equal methods,
same container image.  So the strong descriptor is

    ('S', executable, (literal run | ('file', content id, method) | ('dir', ...))*, sorted multiset of consumed
     (content id, method), image)

The fuzzy descriptor replaces the content id of a file produced by a component by the fuzzy descriptor of the
producer.  Two descriptors are kept for the fuzzy hash: `fz_lo` contains only what MUST make a difference, `fz_hi`
everything that MAY (it adds the name of the consumed file inside the producer, which the statement leaves open).
Rule:  hi equal => hashes must be equal;  lo different => hashes must differ;  otherwise not judged.
A descriptor of None means "not judged" (grey zone); ('MISSING', ..) means no hash may be produced.
"""
import hashlib


# ------------------------------------------------------------------ canonical, length-prefixed encoding
def encode(obj):
    """Injective encoding of nested tuples / str / bytes / int / None."""
    if obj is None:
        return b'n;'
    if isinstance(obj, bool):
        return b'b%d;' % int(obj)
    if isinstance(obj, int):
        s = str(obj).encode()
        return b'i%d:%s;' % (len(s), s)
    if isinstance(obj, str):
        s = obj.encode('utf-8')
        return b's%d:%s;' % (len(s), s)
    if isinstance(obj, bytes):
        return b'y%d:%s;' % (len(obj), obj)
    if isinstance(obj, (tuple, list)):
        parts = [encode(x) for x in obj]
        body = b''.join(parts)
        return b't%d,%d:%s;' % (len(parts), len(body), body)
    raise TypeError('cannot encode %r' % (obj,))


def key_of(desc):
    if desc is None:
        return None
    return hashlib.sha256(encode(desc)).hexdigest()[:24]


def content_id(data):
    if isinstance(data, str):
        data = data.encode('utf-8')
    return 'sha256:' + hashlib.sha256(data).hexdigest()


# ------------------------------------------------------------------ world access helpers
def comp_by_name(world):
    return {c['name']: c for c in world['comps']}


def variable_value(world, comp, name):
    """component > stage > global (the generator never defines one name in two layers with different values
    unless the variable is unused)."""
    if name in (comp.get('vars') or {}):
        return str(comp['vars'][name])
    sv = (world.get('svars') or {}).get(str(comp['stage']), {})
    if name in sv:
        return str(sv[name])
    gv = world.get('gvars') or {}
    if name in gv:
        return str(gv[name])
    raise KeyError('variable %s is not defined for %s' % (name, comp['name']))


def removed(world):
    return set(world.get('remove') or [])


def file_of_ref(world, ref):
    """-> ('file', bytes|None) | ('dir', {relpath: bytes}|None); None = missing."""
    rm = removed(world)
    if ref['prod'] is None:
        p = ref['path']
        if p.startswith('EXT/'):
            src = world.get('ext') or {}
            k = p[4:]
        else:
            src = world.get('files') or {}
            k = p
        if p in rm or k not in src:
            return ('file', None)
        return ('file', _bytes(src[k]))
    outs = (world.get('outputs') or {}).get(ref['prod'], {})
    if ref.get('stdout'):
        # `<producer>:output` without a file: what the producer printed. A repeating producer archives the output of
        # every repetition as streams/<index>.stdout; the reference means the MOST RECENT one (highest index).
        prod = comp_by_name(world)[ref['prod']]
        present = {k: v for k, v in outs.items() if '%s/%s' % (ref['prod'], k) not in rm}
        if prod.get('repeat'):
            idx = {}
            for k in present:
                d, _, f = k.rpartition('/')
                stem, _, ext = f.rpartition('.')
                if d == 'streams' and ext == 'stdout' and stem.isdigit():
                    idx[int(stem)] = k
            if not idx:
                return ('file', None)
            return ('file', _bytes(present[idx[max(idx)]]))
        if 'out.stdout' not in present:
            return ('file', None)
        return ('file', _bytes(present['out.stdout']))
    if ref['path'] is None:
        present = {k: _bytes(v) for k, v in outs.items() if '%s/%s' % (ref['prod'], k) not in rm}
        return ('dir', present)
    k = ref['path']
    if k not in outs or '%s/%s' % (ref['prod'], k) in rm:
        return ('file', None)
    return ('file', _bytes(outs[k]))


def expand_content(v):
    """A content is a str, or a compact spec {'size': N, 'flip': [positions]} of a long text: a fixed 32-byte line
    pattern of N bytes in which the bytes at the given positions are changed."""
    if not isinstance(v, dict):
        return v
    line = '0123456789abcdef0123456789abcde\n'
    n = v['size']
    chars = bytearray((line * (n // len(line) + 1))[:n].encode('ascii'))
    for pos in v.get('flip') or []:
        pos = pos if pos >= 0 else n + pos
        chars[pos] = ord('X') if chars[pos] != ord('X') else ord('Y')
    return chars.decode('ascii')


def _bytes(v):
    v = expand_content(v)
    return v.encode('utf-8') if isinstance(v, str) else v


def image_of(comp):
    b = comp.get('backend')
    if not b:
        return None
    return b.get('image')


# ------------------------------------------------------------------ descriptors
class Descriptors:
    def __init__(self, world):
        self.world = world
        self.comps = comp_by_name(world)
        self._memo = {}

    def own_missing(self, name):
        """(any own referenced input missing, a missing one is not produced by a component)"""
        c = self.comps[name]
        anym, direct = False, False
        for r in c['refs']:
            kind, val = file_of_ref(self.world, r)
            if kind == 'file' and val is None:
                anym = True
                if r['prod'] is None:
                    direct = True
        return anym, direct

    def fuzzy_must_be_absent(self, name):
        """a file that no component produces is missing for the component itself, or (transitively) for a producer whose
        working directory it references"""
        c = self.comps[name]
        for r in c['refs']:
            kind, val = file_of_ref(self.world, r)
            if kind == 'file' and val is None and r['prod'] is None:
                return True
            if kind == 'dir' and self.fuzzy_must_be_absent(r['prod']):
                return True
        return False

    def _exe(self, c):
        e = c['exe']
        if isinstance(e, dict):
            return variable_value(self.world, c, e['v'])
        return e

    def _ref_desc(self, c, r, mode):
        """mode: 'S' strong, 'L' fuzzy-lo, 'H' fuzzy-hi. Returns a tuple, or None when not judged."""
        kind, val = file_of_ref(self.world, r)
        if kind == 'file':
            if val is None:
                return ('MISSING',)
            if mode == 'S' or r['prod'] is None:
                return ('file', content_id(val), r['method'])
            p = self.desc(r['prod'], mode)
            if p is None or p[0] == 'MISSING':
                return None   # the producer has no fuzzy identity: what the consumer gets is not stated
            if mode == 'L':
                return ('produced', p, r['method'])
            return ('produced', p, r['path'], r['method'])
        # a directory of a producer: identified by the producer AND by what the directory contains (the generator
        # always changes both together, see ASSUMPTIONS of the check)
        p = self.desc(r['prod'], mode)
        if mode == 'S' and p is not None and p[0] == 'MISSING':
            # the producer cannot be identified while one of ITS inputs is missing, so neither can what its directory
            # stands for: the missing input is (transitively) an input of the consumer -> no hash
            return ('MISSING',)
        if p is None or p[0] == 'MISSING':
            return None
        if mode == 'S':
            listing = tuple(sorted((k, content_id(v)) for k, v in val.items()))
            return ('dir', p, listing, r['method'])
        return ('dir', p, r['method'])

    def desc(self, name, mode):
        k = (name, mode)
        if k in self._memo:
            return self._memo[k]
        c = self.comps[name]
        refs = [self._ref_desc(c, r, mode) for r in c['refs']]
        if any(r is not None and r[0] == 'MISSING' for r in refs):
            out = ('MISSING',)
        elif any(r is None for r in refs):
            out = None
        else:
            segs = []
            for part in c['args']:
                if isinstance(part, dict) and 'r' in part:
                    segs.append(refs[part['r']])
                    continue
                text = variable_value(self.world, c, part['v']) if isinstance(part, dict) else part
                if segs and isinstance(segs[-1], str):
                    segs[-1] += text
                else:
                    segs.append(text)
            segs = tuple(s for s in segs if s != '')
            consumed = tuple(sorted(refs, key=encode))
            out = ({'S': 'S', 'L': 'F', 'H': 'F'}[mode], self._exe(c), segs, consumed, image_of(c))
        self._memo[k] = out
        return out

    def record(self, name):
        s = self.desc(name, 'S')
        lo = self.desc(name, 'L')
        hi = self.desc(name, 'H')
        anym, direct = self.own_missing(name)
        return {
            'strong': key_of(s) if s is not None and s[0] != 'MISSING' else None,
            'strong_missing': s is not None and s[0] == 'MISSING',
            'fz_lo': key_of(lo) if lo is not None and lo[0] != 'MISSING' else None,
            'fz_hi': key_of(hi) if hi is not None and hi[0] != 'MISSING' else None,
            'fz_missing_direct': direct or self.fuzzy_must_be_absent(name),
            'own_missing': anym or (s is not None and s[0] == 'MISSING'),
        }


def features(world, name):
    """Syntactic facts about a component definition (used to describe failures and by known-finding selectors;
    they never decide pass/fail)."""
    comps = comp_by_name(world)
    c = comps[name]
    in_args = set(p['r'] for p in c['args'] if isinstance(p, dict) and 'r' in p)

    def chain(n, seen):
        if n in seen:
            return
        seen.add(n)
        for r in comps[n]['refs']:
            if r['prod'] is not None:
                chain(r['prod'], seen)
    up = set()
    chain(name, up)
    keys = ('executable', 'arguments', 'files', 'command', 'backend', 'image')
    texts = [p for p in c['args'] if isinstance(p, str)] + ([c['exe']] if isinstance(c['exe'], str) else []) + \
        ([image_of(c)] if image_of(c) else [])
    return {
        'name': name,
        'upstream_and_self': sorted(up),
        'trailing_digit_names': sorted(n for n in up if n[-1:].isdigit()),
        'abs_refs_in_args': sorted(c['refs'][i]['path'] for i in in_args
                                   if c['refs'][i]['prod'] is None and c['refs'][i]['path'].startswith('EXT/')),
        'dir_refs_not_in_args': sorted('%s:%s' % (r['prod'], r['method']) for i, r in enumerate(c['refs'])
                                       if r['prod'] is not None and r['path'] is None and not r.get('stdout')
                                       and i not in in_args),
        'backend': (c.get('backend') or {}).get('kind'),
        'image': image_of(c),
        'key_in_value': sorted(k for k in keys if any(k in t for t in texts)),
    }
