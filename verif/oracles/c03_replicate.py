"""Reference model for C03 — replication expands a workflow without changing its dataflow.

Written from the property statement only; works on an *abstract* workflow (components, typed edges) and never rewrites
strings.  Must not import `experiment.*`.

Abstract case (JSON-able)::

    {'comps': [ {'name': str, 'stage': int,
                 'rep': None | {'n': int, 'form': str},      # the component requests n replicas; form = how n is
                                                             # written (literal / variable scopes, see gen.build_doc)
                 'agg': bool,                                                # aggregating component
                 'refs': [ {'p': int,            # index of the producer in comps (always smaller than the consumer)
                            'abs': bool,         # spelled stage<N>.name (True) or name (False, same stage only)
                            'file': None | str,  # path under the producer
                            'method': str,
                            'arg': None | 'same' | 'other' | 'path' | 'path2'} ...],   # how it also appears in the arguments
                                                 # (path: <ref>/o.dat; path2: <ref>/o.dat <ref>/p.dat)
                 'direct': [str, ...],           # references that are NOT component references (folders, paths)
                 'replica_arg': bool}, ... ],    # arguments contain r=%(replica)s
     'manifest': {folder: source}, 'appdeps': [str]}

Expected expansion (statement): a component is in the replicated region with count N iff it requests N replicas or
consumes (directly) from a component that is in the region with count N and is not aggregating; an aggregating
component is never in the region.  Region components become N copies `<name><i>` (i = 0..N-1, replica index i); copy i
consumes copy i of producers in the region and the single instance of the others; an aggregating (or otherwise single)
consumer of a region producer consumes copies 0..N-1 in index order; everything else is unchanged.
"""
import re

SPECIAL_FOLDERS = ('input', 'data', 'bin', 'conf')
PATH_SUFFIX = 'o.dat'
PATH_SUFFIX2 = 'p.dat'


def norm_path(path):
    """A trailing separator does not change what a path names: 'd/' == 'd' (None = no path)."""
    if path is None:
        return None
    path = path.rstrip('/')
    return path if path else None


class Grey(Exception):
    """The case is outside what the statement decides (excluded from judgement)."""


# ----------------------------------------------------------------------------------------------- reference syntax
def direct_names(case):
    """First path tokens that denote folders (not components): special folders, manifest top level, app-deps."""
    names = set(SPECIAL_FOLDERS)
    for k in (case.get('manifest') or {}):
        names.add(k.split('/')[0])
    for a in (case.get('appdeps') or []):
        a = a.rstrip('/').split('/')[-1]
        names.add(a.rsplit('.', 1)[0].lower() if '.' in a else a.lower())
    return names


def parse_ref(text, stage, directs):
    """Parses `[stage<N>.]<producer>[/<path>]:<method>` relative to `stage`.

    Returns ('comp', stage, producer, path|None, method) or ('direct', body, method); None if `text` is no reference."""
    if not isinstance(text, str) or text.count(':') != 1:
        return None
    body, method = text.split(':')
    if not body or not re.fullmatch(r'[a-z]+', method or ''):
        return None
    if body.startswith('/'):
        return ('direct', body, method)
    head, sep, rest = body.partition('/')
    m = re.fullmatch(r'stage([0-9]+)\.(.+)', head)
    if m is None and head in directs:
        return ('direct', body, method)
    if m is not None:
        return ('comp', int(m.group(1)), m.group(2), norm_path(rest) if sep else None, method)
    return ('comp', stage, head, norm_path(rest) if sep else None, method)


def parse_token(tok, stage, directs, methods):
    """An argument token: ('ref', parsed, suffix) when it is `<reference>[/<path>]`, else ('lit', text)."""
    m = re.fullmatch(r'(.+:(?:%s))((?:/.*)?)' % '|'.join(methods), tok)
    if m:
        r = parse_ref(m.group(1), stage, directs)
        if r is not None:
            return ('ref', r, m.group(2) or None)
    return ('lit', tok)


# ----------------------------------------------------------------------------------------------- the expander
def region(case):
    """Replica count per component (None = single).  Raises Grey where the statement does not decide."""
    comps = case['comps']
    rep = []
    for j, c in enumerate(comps):
        own = c['rep']['n'] if c.get('rep') else None
        for e in c['refs']:
            if not (0 <= e['p'] < j):
                raise ValueError('producers must precede consumers in the abstract case')
        if own is not None and own < 1:
            raise Grey('replica count < 1')
        inherited = set(rep[e['p']] for e in c['refs'] if rep[e['p']] is not None)
        if c.get('agg'):
            if own is not None:
                raise Grey('aggregating component that also requests replicas')
            if len(inherited) > 1:
                raise Grey('aggregating component over regions with different counts')
            rep.append(None)
            continue
        vals = set(inherited)
        if own is not None:
            vals.add(own)
        if len(vals) > 1:
            raise Grey('regions with different replica counts meet')
        rep.append(vals.pop() if vals else None)
    return rep


def expand(case):
    """Returns {'nodes': {(stage, name): {'replica': i|None, 'refs': [...], 'args': [...]}}, 'edges': set, 'rep': [...]}.

    refs: list of parsed references in document order (region producers expanded in place, in index order);
    args: list of parsed tokens of the *resolved* command line."""
    comps = case['comps']
    rep = region(case)
    literal = set((c['stage'], c['name']) for c in comps)
    if len(literal) != len(comps):
        raise ValueError('duplicate component id in abstract case')
    # grey zone: a replica name (or anything that looks like one) equal to a literal component name
    for j, c in enumerate(comps):
        if rep[j] is not None:
            for d in comps:
                if d is not c and re.fullmatch(re.escape(c['name']) + r'[0-9]+', d['name']):
                    raise Grey('replica suffix collides with literal component name')

    def pid(p, i):
        c = comps[p]
        return (c['stage'], c['name'] if i is None else '%s%d' % (c['name'], i))

    nodes = {}
    edges = set()
    for j, c in enumerate(comps):
        copies = [None] if rep[j] is None else list(range(rep[j]))
        for i in copies:
            me = pid(j, i)
            refs = []
            args = []
            groups = []
            for e in c['refs']:
                p = e['p']
                if rep[p] is None:
                    prods = [pid(p, None)]
                elif i is not None:
                    prods = [pid(p, i)]          # copy i consumes copy i
                else:
                    prods = [pid(p, k) for k in range(rep[p])]   # single consumer: all copies, index order
                for pr in prods:
                    refs.append(('comp', pr[0], pr[1], norm_path(e['file']), e['method']))
                    edges.add((pr, me))
                if len(prods) > 1:
                    groups.append([('comp', pr[0], pr[1], norm_path(e['file']), e['method']) for pr in prods])
                if e.get('arg'):
                    args.append(('lit', '-i'))
                    sufs = {'path': ('/' + PATH_SUFFIX,), 'path2': ('/' + PATH_SUFFIX, '/' + PATH_SUFFIX2)}
                    for suf in sufs.get(e['arg'], (None,)):
                        for pr in prods:        # each token expands in place
                            args.append(('ref', ('comp', pr[0], pr[1], norm_path(e['file']), e['method']), suf))
            for d in c.get('direct') or []:
                body, method = d.split(':')
                refs.append(('direct', body, method))
                args.append(('ref', ('direct', body, method), None))
            if c.get('replica_arg'):
                if i is None:
                    raise ValueError('replica_arg on a component outside the region')
                args.append(('lit', 'r=%d' % i))
            args.append(('lit', 'end'))
            if me in nodes:
                raise Grey('replica name collides with another component')
            nodes[me] = {'replica': i, 'refs': refs, 'args': args, 'groups': groups, 'owner': j}
    return {'nodes': nodes, 'edges': edges, 'rep': rep}


# ----------------------------------------------------------------------------------------------- comparison
def compare(expected, observed):
    """Both: {'nodes': {(stage, name): {'replica', 'refs', 'args'}}, 'edges': set of ((s,n),(s,n))}.

    Returns a list of (aspect, node, detail) discrepancies; empty list = the observation satisfies the statement."""
    out = []
    en, on = expected['nodes'], observed['nodes']
    if set(en) != set(on):
        out.append(('nodes', None, {'missing': sorted(set(en) - set(on)), 'unexpected': sorted(set(on) - set(en))}))
    for nid in sorted(set(en) & set(on)):
        e, o = en[nid], on[nid]
        if e['replica'] != o['replica']:
            out.append(('replica', nid, {'expected': e['replica'], 'observed': o['replica']}))
        dangling = [r for r in o['refs'] if r[0] == 'comp' and (r[1], r[2]) not in on]
        if dangling:
            out.append(('dangling', nid, {'refs': dangling}))
        if sorted(map(repr, e['refs'])) != sorted(map(repr, o['refs'])):
            out.append(('refs', nid, {'expected': e['refs'], 'observed': o['refs']}))
        else:
            # a single consumer of a region producer must list the copies in index order
            for grp in e.get('groups') or []:
                if [r for r in o['refs'] if r in grp] != grp:
                    out.append(('agg-order', nid, {'expected': grp, 'observed': o['refs']}))
                    break
        if e['args'] != o['args']:
            out.append(('args', nid, {'expected': e['args'], 'observed': o['args']}))
    if observed.get('edges') is not None and set(en) == set(on) and set(expected['edges']) != set(observed['edges']):
        out.append(('edges', None, {'missing': sorted(set(expected['edges']) - set(observed['edges'])),
                                    'unexpected': sorted(set(observed['edges']) - set(expected['edges']))}))
    return out
