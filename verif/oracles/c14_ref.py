"""Reference for C14: alphabets of awkward values, histories of logical values and what a reader must get back.

Nothing here imports `experiment.*`. A *history* is a list of updates; `expected_*(history, k)` is the logical content
a loader must return once update k (1-based) is the last acknowledged one. The oracle of the check is

    crash in update k      ->  observation in { expected(k-1), expected(k) }     (k = 1: ABSENT or expected(1))
    I/O error in update k  ->  the same, and the observation is a proper value (the file loads)
    clean update k         ->  observation == expected(k)
"""
import datetime
import os

ABSENT = '<ABSENT>'

# ------------------------------------------------------------------ awkward strings (DESIGN §3 C14)
# label -> string. Each one collides with some piece of syntax of one of the on-disk formats.
AWKWARD = {
    'plain': 'Stage failed',
    'equals': 'a=b=c',
    'newline': 'line1\nline2',
    'keylike-line': 'boom\nstages=[]',          # a newline followed by something that looks like another key
    'backslash-n': 'a\\nb',                     # the two characters backslash, n
    'winpath': 'C:\\new\\table',
    'percent': '50% done',
    'colon': 'key: value',
    'hash': 'a #comment',
    'leading-blank': '  lead',
    'trailing-blank': 'trail  ',
    'trailing-newline': 'Traceback ...\n',
    'non-ascii': 'd\u00e9j\u00e0 \u20ac \U0001f600',
    'section': '[section]',
    'tab-cr': 'a\tb\rc',
    'quotes': 'it\'s "quoted"',
    'empty': '',
}
# labels whose string has leading / trailing white space (fidelity of those is reported under its own class)
BLANK_EDGED = ('leading-blank', 'trailing-blank', 'trailing-newline')

STATES = ('running', 'finished', 'failed', 'waiting_on_resource', 'suspended', 'initialising')
EXIT = ('N/A', 'Success', 'Failed', 'Stopped', 'ResourceExhausted')


# ------------------------------------------------------------------ status.txt
def status_action_sequences(n, symbols=('keep', 's', 't', 'remove')):
    """All sequences of n actions on the error description: keep what is there / set string s / set string t /
    remove it."""
    if n == 0:
        yield ()
        return
    for rest in status_action_sequences(n - 1, symbols):
        for a in symbols:
            yield rest + (a,)


def status_history(actions, s, t, stages=('stage0', 'stage1')):
    """-> list of updates; update = dict of setter-name -> value applied before Status.update()."""
    out = []
    for k, a in enumerate(actions, 1):
        u = {
            'stage-progress': k / 8.0, 'total-progress': k / 16.0, 'cost': k * 3,
            'current-stage': stages[k % len(stages)],
            'stage-state': STATES[k % len(STATES)], 'experiment-state': STATES[(k + 1) % len(STATES)],
            'exit-status': EXIT[k % len(EXIT)],
            'error-description': {'keep': '<KEEP>', 's': s, 't': t, 'remove': '<REMOVE>'}[a],
        }
        if k == len(actions):
            u['completed-on'] = datetime.datetime(2026, 1, 2, 3, 4, 5, 678).isoformat()
        out.append(u)
    return out


def status_expected(history, k, stages=('stage0', 'stage1'), created='2026-01-01T000000.000001'):
    """Logical content of status.txt after update k: {key: string form}. ABSENT for k == 0."""
    if k == 0:
        return ABSENT
    vals = {'created-on': created, 'stages': list(stages)}
    desc = None
    for u in history[:k]:
        for key, v in u.items():
            if key == 'error-description':
                if v == '<REMOVE>':
                    desc = None
                elif v != '<KEEP>':
                    desc = v
            else:
                vals[key] = v
    out = {key: (v if key == 'stages' else '%s' % (v,)) for key, v in vals.items()}
    out['error-description'] = desc if desc is not None else ABSENT
    return out


def unicode_escape(s):
    return s.encode('unicode_escape').decode('utf-8')


def escape_depth(expected, observed, max_depth=6):
    """j >= 1 if observed is `expected` escaped j more times than a reader undoes (possibly blank-stripped), else 0."""
    if not isinstance(expected, str) or not isinstance(observed, str):
        return 0
    cur = expected
    for j in range(1, max_depth + 1):
        nxt = unicode_escape(cur)
        if nxt == cur:
            return 0
        cur = nxt
        if observed == cur or observed == cur.strip():
            return j
    return 0


# ------------------------------------------------------------------ output.txt / output.json
def outputs_expected(spec, stages_processed, k, mtimes):
    """spec: {key-output name: {'stage': int, 'relpath': str, 'last_stage': int}}; stages_processed: list of stage
    indices (update j processes stage stages_processed[j-1]); mtimes[j-1]: {name: mtime of its file at update j, or None
    if the file does not exist yet}. Returns {name: entry} of the outputs that have been produced (ABSENT if k == 0)."""
    if k == 0:
        return ABSENT
    state = {}
    for j in range(1, k + 1):
        stage = stages_processed[j - 1]
        for name, sp in spec.items():
            if stage not in sp['stages']:
                continue
            mt = mtimes[j - 1].get(name)
            if mt is None:
                continue
            e = state.setdefault(name, {'version': 0})
            e['version'] += 1
            e['final'] = 'yes' if stage == max(sp['stages']) else 'no'
            e['filepath'] = sp['relpath']
            e['filename'] = os.path.split(sp['relpath'])[1]
            e['creationtime'] = float(mt)
            e['production'] = 'yes'
            e['description'] = ''
            e['type'] = ''
    return state


def outputs_as_txt_view(state):
    """What a reader of the INI listing gets: every value is a string."""
    if state == ABSENT:
        return ABSENT
    return {n: {k: ('%s' % v if k != 'version' else '%d' % v) for k, v in e.items()} for n, e in state.items()}


def outputs_as_json_view(state):
    """What Experiment._parse_outputs_file returns: version int, creationtime formatted local time, the rest strings."""
    if state == ABSENT:
        return ABSENT
    out = {}
    for n, e in state.items():
        d = {k: str(v) for k, v in e.items()}
        d['version'] = int(e['version'])
        d['creationtime'] = datetime.datetime.fromtimestamp(e['creationtime']).strftime('%Y-%m-%dT%H%M%S.%f')
        out[n] = d
    return out


# ------------------------------------------------------------------ status_details.json
def details_value(k, s):
    """JSON-friendly dictionary in the shape StatusDB.getWorkflowStatus(json_friendly=True) produces."""
    return {str(st): {'engine': {'comp%d %s' % (k, s): 'component,state,note\nc%d,running,%s\n' % (k, s), 'k': '%d' % k}}
            for st in range(1 + k % 2)}


def details_expected(values, k):
    return ABSENT if k == 0 else values[k - 1]


# ------------------------------------------------------------------ conf/flowir_instance.yaml + conf/manifest.yaml
def instance_updates(kinds, strings):
    """Update j (1-based): kind 'gen' (instance description + manifest rewritten) or 'store' (description only); adds
    component c<j> whose arguments and variable w are strings[j-1], sets global variable g to the same string."""
    return [{'kind': kd, 'string': strings[j % len(strings)], 'component': 'c%d' % (j + 1)} for j, kd in enumerate(kinds)]


def instance_expected(updates, k, base_components, base_globals):
    if k == 0:
        return ABSENT
    comps = {n: dict(v) for n, v in base_components.items()}
    glob = dict(base_globals)
    for u in updates[:k]:
        comps[u['component']] = {'stage': 0, 'arguments': u['string'], 'w': u['string']}
        glob['g'] = u['string']
    return {'components': comps, 'globals': glob}


def manifest_value(j, s):
    """Manifest written by update j: target folder names with awkward characters -> source:method."""
    key = s.strip().replace('\n', ' ').replace('/', '_') or 'dir'
    return {'data': '/abs/src data %d:copy' % j, key + ' %d' % j: '/abs/%s:link' % s.replace('\n', ' ').replace(':', '_'),
            'nested/dir': 'rel/path'}


def manifest_expected(updates, k, manifests):
    """manifests[j-1] is the manifest in force at update j; 'store' updates do not rewrite the file."""
    if k == 0:
        return ABSENT
    cur = None
    for j, u in enumerate(updates[:k]):
        if u['kind'] == 'gen':
            cur = manifests[j]
    return cur if cur is not None else ABSENT
