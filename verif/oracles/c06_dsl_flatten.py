"""C06 reference model: an independent recursive flattener for DSL 2.0 namespaces.

Written from the property statement and the module documentation of the DSL (what a namespace *means*), not from the
compiler.  It never substitutes text into text: every value is parsed once into a sequence of items (literal text,
parameter references, output references), evaluated in the environment of the enclosing template instance, and
output references are carried as structured objects (absolute list of step/path segments + optional method) that
are extended when a lower level appends `/path` or `:method`.

    flatten(doc) -> Flat          (doc is the plain dict handed to Namespace(**doc))
        .nodes  {location tuple: Node}; Node.fields (resolved non-argument fields), Node.env, Node.tokens (argument tokens,
                a reference token is ('REF', path, method)), Node.arg_refs [(token index, producer location, path,
                method)], Node.refs {(producer location, path, method)}
    raises Invalid(kind, strict)  the namespace is not a valid program (strict=False: validity is debatable, the
                                  caller must accept both a rejection and a well-formed compilation)
    raises OutOfModel             the document uses something this model deliberately does not cover

Must NOT import experiment.* .
"""
import re

METHODS = ('ref', 'copy', 'output', 'link', 'extract')
NAME = r'[A-Za-z0-9_.-]+'
_TOKEN = re.compile(r'%\((?P<param>' + NAME + r')\)s|<(?P<ref>[^<>]*)>')
_SEGS = re.compile(r'^' + NAME + r'(/' + NAME + r')*/?$')
_SEGS_METHOD = re.compile(r'^' + NAME + r'(/' + NAME + r')*/?:(' + '|'.join(METHODS) + r')$')
_SUFFIX = re.compile(r'(?P<path>(/' + NAME + r')+)?/?(:(?P<method>' + '|'.join(METHODS) + r')(?![A-Za-z0-9_.-]))?')
ROOT = 'entry-instance'


class Invalid(Exception):
    def __init__(self, kind, detail='', strict=True):
        Exception.__init__(self, '%s: %s' % (kind, detail))
        self.kind = kind
        self.detail = detail
        self.strict = strict


class OutOfModel(Exception):
    pass


class Lit(object):
    __slots__ = ('text',)

    def __init__(self, text):
        self.text = text

    def __repr__(self):
        return 'Lit(%r)' % self.text


class Ref(object):
    """An output reference: absolute segments (steps then path), optional method, identity of the spelling site."""
    __slots__ = ('segs', 'method', 'origin')

    def __init__(self, segs, method, origin):
        self.segs = tuple(segs)
        self.method = method
        self.origin = origin

    def __repr__(self):
        return 'Ref(%s,%s,#%s)' % ('/'.join(self.segs), self.method, self.origin)


class Obj(object):
    """A dictionary value (environment); only meaningful as the whole value of a parameter / field."""
    __slots__ = ('value',)

    def __init__(self, value):
        self.value = value

    def __repr__(self):
        return 'Obj(%r)' % (self.value,)


class Node(object):
    def __init__(self, location, template):
        self.location = location
        self.template = template
        self.env = None          # None: default environment, ('none',): empty, ('dict', items): these variables
        self.fields = ()
        self.tokens = ()
        self.arg_refs = []
        self.refs = set()


class Flat(object):
    def __init__(self):
        self.nodes = {}
        self.workflow_instances = []


class _Flattener(object):
    def __init__(self, doc):
        self.doc = doc
        self.flat = Flat()
        self.templates = {}
        self.origins = 0
        self.created = {}      # origin -> description
        self.consumed = set()  # origins that reached a component

    # ------------------------------------------------------------------ values
    def parse(self, value, env, ctx):
        """value -> list of items. ctx = (workflow instance location, workflow template dict, target step) or None."""
        if isinstance(value, dict):
            if not all(isinstance(k, str) and isinstance(v, (str, int)) and not isinstance(v, bool)
                       for k, v in value.items()):
                raise OutOfModel('dictionary value %r' % (value,))
            return [Obj(dict(value))]
        if isinstance(value, bool) or value is None or isinstance(value, (list, float)):
            raise OutOfModel('value of unsupported type %r' % (value,))
        if isinstance(value, int):
            return [Lit(str(value))]
        if not isinstance(value, str):
            raise OutOfModel('value of unsupported type %r' % (value,))
        items = []
        pos = 0
        for m in _TOKEN.finditer(value):
            if m.start() > pos:
                items.append(self.literal(value[pos:m.start()]))
            pos = m.end()
            if m.group('param') is not None:
                name = m.group('param')
                if env is None:
                    raise OutOfModel('parameter reference where no enclosing template exists: %r' % value)
                if name not in env:
                    raise Invalid('unknown-parameter-reference', '%s in %r' % (name, value))
                items.extend(env[name])
            else:
                body = m.group('ref')
                if _SEGS_METHOD.match(body):
                    raise Invalid('method-inside-brackets', value)
                if not _SEGS.match(body):
                    raise OutOfModel('reference body %r' % body)
                if ctx is None:
                    raise OutOfModel('output reference outside a workflow: %r' % value)
                here, wf, target = ctx
                segs = [s for s in body.split('/') if s]
                if segs[0] == target:
                    raise Invalid('reference-to-self', value)
                if segs[0] not in wf.get('steps', {}):
                    raise Invalid('reference-to-non-sibling', '%s is not a step of %s' % (segs[0], wf['signature']['name']))
                self.origins += 1
                self.created[self.origins] = (here, value)
                items.append(Ref(tuple(here) + tuple(segs), None, self.origins))
        if pos < len(value):
            items.append(self.literal(value[pos:]))
        if any(isinstance(x, Obj) for x in items):
            if len(items) != 1:
                raise OutOfModel('dictionary parameter mixed with text: %r' % value)
            return items
        return self.assemble(items)

    @staticmethod
    def literal(text):
        if '<' in text or '>' in text or '%(' in text:
            raise OutOfModel('literal text %r' % text)
        return Lit(text)

    @staticmethod
    def assemble(items):
        # merge adjacent literals
        merged = []
        for it in items:
            if isinstance(it, Lit) and merged and isinstance(merged[-1], Lit):
                merged[-1] = Lit(merged[-1].text + it.text)
            elif isinstance(it, Lit):
                merged.append(Lit(it.text))
            else:
                merged.append(it)
        out = []
        i = 0
        while i < len(merged):
            it = merged[i]
            if isinstance(it, Lit):
                out.append(it)
                i += 1
                continue
            before = out[-1].text if out and isinstance(out[-1], Lit) else ''
            after = merged[i + 1].text if i + 1 < len(merged) and isinstance(merged[i + 1], Lit) else ''
            if i + 1 < len(merged) and isinstance(merged[i + 1], Ref):
                raise OutOfModel('two adjacent references')
            qb, qa = before.endswith('"'), after.startswith('"')
            if qb != qa:
                raise OutOfModel('unbalanced quote around a reference')
            if qb:
                before = before[:-1]
                after = after[1:]
                out[-1] = Lit(before)
            if before and not before[-1].isspace():
                raise OutOfModel('reference glued to preceding text %r' % before)
            m = _SUFFIX.match(after)
            path, method = m.group('path'), m.group('method')
            consumed = m.end()
            if consumed and it.method is not None:
                raise OutOfModel('text appended to a reference that already has a method')
            rest = after[consumed:]
            if rest and not rest[0].isspace():
                raise OutOfModel('reference glued to following text %r' % rest)
            segs = it.segs + tuple(s for s in (path or '').split('/') if s)
            out.append(Ref(segs, method if method is not None else it.method, it.origin))
            if i + 1 < len(merged) and isinstance(merged[i + 1], Lit):
                merged[i + 1] = Lit(rest)
            i += 1
        return [x for x in out if not (isinstance(x, Lit) and x.text == '')]

    # ------------------------------------------------------------------ templates
    def index_templates(self):
        for kind in ('workflows', 'components'):
            for t in self.doc.get(kind) or []:
                name = t['signature']['name']
                if name in self.templates:
                    raise Invalid('duplicate-template', name)
                self.templates[name] = (kind, t)

    def environment(self, tname, t, given):
        params = t['signature'].get('parameters') or []
        names = [p['name'] for p in params]
        if len(set(names)) != len(names):
            raise Invalid('duplicate-parameter', tname)
        for k in given:
            if k not in names:
                raise Invalid('unknown-parameter', '%s of %s' % (k, tname))
        env = {}
        for p in params:
            if p['name'].startswith('input.') or p['name'].startswith('data.') or p['name'] == 'replica':
                raise OutOfModel('special parameter name %s' % p['name'])
            if p['name'] in given:
                env[p['name']] = given[p['name']]
            elif 'default' in p:
                if p['default'] is None:
                    raise OutOfModel('explicit null default')
                env[p['name']] = self.parse(p['default'], None, None)
                if any(isinstance(x, Ref) for x in env[p['name']]):
                    raise OutOfModel('reference in a default')
            else:
                raise Invalid('missing-argument', '%s of %s' % (p['name'], tname))
        return env

    def instantiate(self, tname, location, given, chain):
        kind, t = self.templates[tname]
        env = self.environment(tname, t, given)
        if kind == 'components':
            self.component(tname, t, location, env)
            return
        if tname in chain:
            raise Invalid('template-cycle', ' -> '.join(chain + [tname]))
        steps = t.get('steps') or {}
        seen = []
        for e in t.get('execute') or []:
            target = e['target']
            if not (target.startswith('<') and target.endswith('>')):
                raise OutOfModel('target %r' % target)
            target = target[1:-1]
            if target in seen:
                raise Invalid('duplicate-execute', target)
            seen.append(target)
            if target not in steps:
                raise Invalid('execute-without-step', target)
        for s in steps:
            if s not in seen:
                raise Invalid('step-without-execute', s)
        self.flat.workflow_instances.append(tuple(location))
        for e in t.get('execute') or []:
            target = e['target'][1:-1]
            child = steps[target]
            if child not in self.templates:
                raise Invalid('unknown-template', child)
            if self.templates[child][0] == 'workflows' and (child == tname or child in chain):
                raise Invalid('template-cycle', ' -> '.join(chain + [tname, child]))
            args = {}
            for k, v in (e.get('args') or {}).items():
                args[k] = self.parse(v, env, (tuple(location), t, target))
            self.instantiate(child, tuple(location) + (target,), args, chain + [tname])

    # ------------------------------------------------------------------ components
    def resolve(self, ref):
        """absolute segments -> (producer location, path)"""
        kind, t = self.templates[self.doc['entrypoint']['entry-instance']]
        loc = [ROOT]
        segs = list(ref.segs)
        if not segs or segs[0] != ROOT:
            raise OutOfModel('reference not below the root: %r' % (ref,))
        i = 1
        while True:
            if kind == 'components':
                return tuple(loc), '/'.join(segs[i:])
            if i >= len(segs):
                raise Invalid('reference-to-workflow', '/'.join(segs), strict=False)
            steps = t.get('steps') or {}
            if segs[i] not in steps:
                raise Invalid('reference-to-unknown-step', '/'.join(segs))
            child = steps[segs[i]]
            if child not in self.templates:
                raise Invalid('unknown-template', child)
            kind, t = self.templates[child]
            loc.append(segs[i])
            i += 1

    def component(self, tname, t, location, env):
        if tuple(location) in self.flat.nodes:
            raise OutOfModel('location visited twice')
        node = Node(tuple(location), tname)
        variables = t.get('variables') or {}
        params_env = env
        if variables:
            # Variables are private to the component: inside the component's own fields %(v)s stays as it is (the runtime
            # resolves it); the caller cannot set them and they play no role in the arguments the caller writes.
            for v in variables:
                if v in env:
                    raise Invalid('variable-shadows-parameter', '%s of %s' % (v, tname))
                if v == 'replica':
                    raise OutOfModel('variable called replica')
            env = dict(env)
            for v in variables:
                env[v] = [Lit('%%(%s)s' % v)]
        fields = []
        arguments = None

        def walk(prefix, value):
            nonlocal arguments
            if isinstance(value, dict):
                for k in value:
                    walk(prefix + (str(k),), value[k])
            elif isinstance(value, list):
                for i, v in enumerate(value):
                    walk(prefix + (str(i),), v)
            elif prefix == ('command', 'arguments'):
                arguments = value
            elif prefix == ('command', 'environment'):
                items = self.parse(value, env, None) if isinstance(value, (str, dict)) else None
                if items and len(items) == 1 and isinstance(items[0], Obj):
                    d = items[0].value
                    node.env = ('dict', tuple(sorted((k, str(v)) for k, v in d.items()))) if d else ('none',)
                elif items and len(items) == 1 and isinstance(items[0], Lit) and items[0].text == 'none':
                    node.env = ('none',)
                else:
                    raise OutOfModel('command.environment %r' % (value,))
            elif isinstance(value, str):
                items = self.parse(value, env, None)
                if any(not isinstance(x, Lit) for x in items):
                    raise OutOfModel('reference or dictionary in field %s' % '.'.join(prefix))
                fields.append(('.'.join(prefix), ''.join(x.text for x in items)))
            else:
                fields.append(('.'.join(prefix), str(value)))

        for k in t:
            if k != 'signature':
                walk((k,), t[k])
        node.fields = tuple(sorted(fields))
        items = self.parse(arguments if arguments is not None else '', env, None)
        tokens = []
        used_origins = set()
        for it in items:
            if isinstance(it, Obj):
                raise OutOfModel('dictionary parameter in arguments')
            if isinstance(it, Lit):
                tokens.extend(it.text.split())
            else:
                if it.method is None:
                    raise Invalid('partial-reference-in-arguments', repr(it), strict=False)
                producer, path = self.resolve(it)
                node.arg_refs.append((len(tokens), producer, path, it.method))
                node.refs.add((producer, path, it.method))
                tokens.append(('REF', path, it.method))
                used_origins.add(it.origin)
                self.consumed.add(it.origin)
        for name, value in params_env.items():
            for it in value:
                if isinstance(it, Ref):
                    self.consumed.add(it.origin)
                    if it.method is not None:
                        producer, path = self.resolve(it)
                        node.refs.add((producer, path, it.method))
                    elif it.origin not in used_origins:
                        raise Invalid('partial-reference-unused', '%s=%r' % (name, it), strict=False)
                    else:
                        self.resolve(it)
        node.tokens = tuple(tokens)
        self.flat.nodes[tuple(location)] = node

    # ------------------------------------------------------------------ entry
    def run(self):
        self.index_templates()
        ep = self.doc.get('entrypoint')
        if not ep:
            raise Invalid('missing-entrypoint')
        entry = ep.get('entry-instance', ep.get('entryInstance'))
        if entry not in self.templates:
            raise Invalid('unknown-entry-template', str(entry))
        ex = ep.get('execute') or []
        if len(ex) != 1:
            raise OutOfModel('entrypoint.execute must have one entry')
        given = {}
        for k, v in (ex[0].get('args') or {}).items():
            try:
                given[k] = self.parse(v, None, None)
            except OutOfModel:
                if isinstance(v, str) and '%(' in v:
                    raise Invalid('unknown-parameter-reference', 'entrypoint argument %r' % v)
                raise
            if any(isinstance(x, Ref) for x in given[k]):
                raise OutOfModel('reference in entrypoint arguments')
        self.instantiate(entry, (ROOT,), given, [])
        for n in self.flat.nodes.values():
            for (producer, path, method) in n.refs:
                if producer not in self.flat.nodes:
                    raise OutOfModel('producer %r is not an instantiated component' % (producer,))
                if producer == n.location:
                    raise Invalid('reference-to-self', repr(producer))
        self.check_dataflow_acyclic()
        unused = set(self.created) - self.consumed
        if unused:
            raise OutOfModel('output references that never reach a component: %r' % sorted(self.created[u] for u in unused))
        return self.flat

    def check_dataflow_acyclic(self):
        succ = {}
        for n in self.flat.nodes.values():
            for (producer, _p, _m) in n.refs:
                succ.setdefault(producer, set()).add(n.location)
        state = {}

        def visit(v):
            state[v] = 1
            for w in succ.get(v, ()):
                if state.get(w) == 1:
                    raise Invalid('dataflow-cycle', '%r -> %r' % (v, w))
                if w not in state:
                    visit(w)
            state[v] = 2

        for v in list(self.flat.nodes):
            if v not in state:
                visit(v)


def flatten(doc):
    return _Flattener(doc).run()


def expected_graph(flat):
    """(nodes {location: label}, edges {(producer, consumer): frozenset(labels)})"""
    nodes = {}
    edges = {}
    for loc, n in flat.nodes.items():
        nodes[loc] = (n.fields, n.env, n.tokens)
        for (producer, path, method) in n.refs:
            edges.setdefault((producer, loc), set()).add(('ref', path, method))
        for (idx, producer, path, method) in n.arg_refs:
            edges.setdefault((producer, loc), set()).add(('arg', idx, path, method))
    return nodes, dict((k, frozenset(v)) for k, v in edges.items())
