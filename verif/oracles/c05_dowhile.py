"""Reference model of DoWhile unrolling (C05). Pure Python, no imports from `experiment.*`.

A *shape* is a small JSON-able description of a workflow with one DoWhile document (see verif/gen/c05_shapes.py for
the grammar and for the translation into real FlowIR documents).  This module answers, from the property statement
only, what the workflow must look like after k further iterations have been instantiated:

* exactly the instances 0..k of every looped component exist (with replicas for replicated looped components);
* instance i>0 takes its loop-carried inputs (bindings that have a loopBinding) from instance i-1 of the loopBinding's
  producer, every other input from the original binding (outside producer) or, for references between looped
  components, from instance i of the referenced component (same iteration);
* a plain reference from outside to a looped component resolves to instance k (numerically highest iteration);
* aggregate loop references (:loopref / :loopoutput) list instances 0,1,...,k in increasing numeric order;
* the loop's current condition is produced by instance k of the condition component, current iteration is k.

Shape grammar (all fields required):
  S          int   stage of the component that imports the DoWhile document
  comps      list of {name, ls (stage inside the document), uses: [binding names], deps: [[idx, spelling, method, file]],
                      replicate: int (0 = not replicated), aggregate: bool}
  bindings   {name: {type: 'ref'|'output', outside: <name of an outside producer in stage 0>, file: None|str,
                     file_at: see FILE_AT, carried_from: None|idx of looped component, spell: 'abs'|'rel'}}
  outside_replicate  optional {outside producer name: replicas}; its consumers in the loop aggregate
  cond       idx of the component that produces the condition;  cond_file: None|str; cond_spell: 'abs'|'rel'
  consumers  list of {name, stage, refs: [[idx, method, file]]}   (outside consumers of looped components)
  store      bool  (store_flowir_to_disk argument)
  reloads    list of k after which the instance is loaded again from its directory (restart); needs store=True
"""
import re

REF_RE = re.compile(r'^(?:stage(\d+)\.)?([^/:\s]+)(?:/([^:\s]+))?:([A-Za-z]+)$')
PATH_METHODS = ('ref', 'copy', 'link', 'copyout', 'extract')
ALL_METHODS = ('copy', 'link', 'ref', 'copyout', 'extract', 'output', 'loopref', 'loopoutput')


def parse_ref(text, owner_stage):
    """'[stageN.]producer[/file]:method' -> (stage, producer, file|None, method); relative refs get owner_stage."""
    m = REF_RE.match(text)
    if not m:
        return None
    stage, prod, fil, method = m.groups()
    return (int(stage) if stage is not None else owner_stage, prod, fil, method)


def ident(stage, name):
    return 'stage%d.%s' % (stage, name)


def replica_names(comp):
    """Names of the placeholders / per-iteration basenames of a looped component."""
    r = comp.get('replicate') or 0
    if r:
        return ['%s%d' % (comp['name'], j) for j in range(r)]
    return [comp['name']]


def inst_name(i, base):
    return '%d#%s' % (i, base)


def comp_stage(shape, comp):
    return shape['S'] + comp['ls']


FILE_AT = {            # file_at -> where the file name of a binding is written: (original binding, loopBinding, usage)
    None: (0, 0, 0), 'binding': (1, 1, 0), 'usage': (0, 0, 1), 'loop+usage': (0, 1, 1), 'all': (1, 1, 1),
    'loop': (0, 1, 0), 'orig': (1, 0, 0), 'orig+usage': (1, 0, 1),
}


def binding_files(b):
    """-> {'orig', 'loop', 'usage'}: the file name written on the original binding, the loopBinding and the reference
    that uses the binding (None where absent).  Where two places name a file it is the same name."""
    o, l, u = FILE_AT[b.get('file_at')]
    f = b.get('file')
    return {'orig': f if o else None, 'loop': f if l else None, 'usage': f if u else None}


def binding_effective_file(b, carried=True):
    """File below the producer that an input taken through binding b names: the usage's file or the file of the
    loopBinding (input carried from the previous iteration) / of the original binding (otherwise)."""
    fs = binding_files(b)
    return (fs['loop'] if carried else fs['orig']) or fs['usage']


def outside_replicas(shape, name):
    r = (shape.get('outside_replicate') or {}).get(name, 0)
    return ['%s%d' % (name, j) for j in range(r)] if r else [name]


def expected_instance_refs(shape, ci, i, rep):
    """Set of parsed references (stage, producer, file, method) of replica `rep` (index or None) of instance i of
    looped component ci."""
    comp = shape['comps'][ci]
    out = set()
    for bname in comp['uses']:
        b = shape['bindings'][bname]
        if b.get('carried_from') is not None and i > 0:
            fil = binding_effective_file(b, carried=True)
            p = shape['comps'][b['carried_from']]
            for base in replica_names(p):
                out.add((comp_stage(shape, p), inst_name(i - 1, base), fil, b['type']))
        else:
            fil = binding_effective_file(b, carried=False)
            for n in outside_replicas(shape, b['outside']):
                out.add((0, n, fil, b['type']))
    for (pi, _spelling, method, fil) in comp['deps']:
        p = shape['comps'][pi]
        bases = replica_names(p)
        if p.get('replicate') and comp.get('replicate') and not comp.get('aggregate'):
            bases = [bases[rep]]
        for base in bases:
            out.add((comp_stage(shape, p), inst_name(i, base), fil, method))
    return out


def outside_names(shape):
    """Names of the nodes of the outside producers (replicas where the outside producer is replicated)."""
    base = sorted({b['outside'] for b in shape['bindings'].values()} | {'gen'})
    return [n for b in base for n in outside_replicas(shape, b)]


def expected_state(shape, k):
    """Everything the statement fixes about the workflow after k further iterations."""
    S = shape['S']
    instances = {}          # identifier -> {'refs': set, 'preds': set, 'iter': i, 'comp': idx}
    unreplicated = set()    # identifiers of looped instances before replication
    placeholders = {}
    known_outside = {ident(0, n) for n in outside_names(shape)}
    for ci, comp in enumerate(shape['comps']):
        st = comp_stage(shape, comp)
        for i in range(k + 1):
            unreplicated.add(ident(st, inst_name(i, comp['name'])))
        for rep, base in enumerate(replica_names(comp)):
            pid = ident(st, base)
            placeholders[pid] = {'latest': ident(st, inst_name(k, base)),
                                 'represents': {ident(st, inst_name(i, base)) for i in range(k + 1)}}
            for i in range(k + 1):
                refs = expected_instance_refs(shape, ci, i, rep)
                instances[ident(st, inst_name(i, base))] = {
                    'refs': refs, 'preds': {ident(r[0], r[1]) for r in refs}, 'iter': i, 'comp': ci}
    cond = shape['comps'][shape['cond']]
    state = {'iteration': k,
             'condition': (comp_stage(shape, cond), inst_name(k, cond['name']), shape.get('cond_file'), 'output')}
    consumers = {}
    all_cond = {ident(comp_stage(shape, cond), inst_name(i, cond['name'])) for i in range(k + 1)}
    for cons in shape['consumers']:
        must, may = set(), set(all_cond)
        for (pi, method, fil) in cons['refs']:
            p = shape['comps'][pi]
            for base in replica_names(p):
                ph = placeholders[ident(comp_stage(shape, p), base)]
                must.add(ph['latest'])
                may |= ph['represents']
                if method in ('loopref', 'loopoutput'):
                    must |= ph['represents']
        consumers[ident(cons['stage'], cons['name'])] = {'must': must, 'may': may | must}
    return {'instances': instances, 'unreplicated': unreplicated, 'placeholders': placeholders, 'state': state,
            'consumers': consumers, 'outside': known_outside}


def probes(shape):
    """All reference spellings with which something outside the loop can address a looped component."""
    out = []
    for ci, comp in enumerate(shape['comps']):
        st = comp_stage(shape, comp)
        for base in replica_names(comp):
            for method in ALL_METHODS:
                for fil in (None, 'f.txt'):
                    out.append({'comp': ci, 'base': base, 'stage': st, 'method': method, 'file': fil, 'spell': 'abs'})
            for method in ('ref', 'output', 'loopref', 'loopoutput'):
                out.append({'comp': ci, 'base': base, 'stage': st, 'method': method, 'file': None, 'spell': 'rel'})
    return out


def probe_text(p):
    t = p['base'] if p['spell'] == 'rel' else ident(p['stage'], p['base'])
    if p['file']:
        t += '/' + p['file']
    return '%s:%s' % (t, p['method'])


def expected_probe(shape, k, p):
    """-> ('paths', [(stage, instance name, file|None), ...]) or ('contents', [(stage, instance name, file|None), ...])
    where for 'contents' the element identifies the file whose contents are expected (file None = stdout)."""
    if p['method'] in ('loopref', 'loopoutput'):
        items = [(p['stage'], inst_name(i, p['base']), p['file']) for i in range(k + 1)]
    else:
        items = [(p['stage'], inst_name(k, p['base']), p['file'])]
    return ('contents' if p['method'] in ('output', 'loopoutput') else 'paths', items)


# ------------------------------------------------------------------ workflows with several DoWhile documents
# A multi-loop shape is {'label', 'loops': [<single-loop shape + 'loop_name'>, ...], 'import_order': [loop indices],
# 'store': bool, 'xconsumers': [{'name', 'stage', 'refs': [[loop idx, comp idx, method, file], ...]}]}.  A history is a
# word over the letters A, B, C (one further iteration of loop 0, 1, 2) and R (restart).  The statement is applied to
# every loop separately: loop j has its own iteration count ks[j].
def loops_of(shape):
    return shape['loops'] if 'loops' in shape else [shape]


def loop_name(loop):
    return loop.get('loop_name', 'loop')


def dowhile_id(loop):
    return ident(loop['S'], loop_name(loop))


def expected_state_v(shape, ks):
    """Union of expected_state(loop_j, ks[j]) over all loops; 'states' maps the DoWhile id to the loop's state."""
    out = {'instances': {}, 'unreplicated': set(), 'placeholders': {}, 'states': {}, 'consumers': {}, 'outside': set(),
           'placeholder_loop': {}}
    per_loop = []
    for j, loop in enumerate(loops_of(shape)):
        st = expected_state(loop, ks[j])
        per_loop.append(st)
        for n, d in st['instances'].items():
            d['loop'] = j
            out['instances'][n] = d
        out['unreplicated'] |= st['unreplicated']
        for pid, ph in st['placeholders'].items():
            out['placeholders'][pid] = ph
            out['placeholder_loop'][pid] = j
        out['states'][dowhile_id(loop)] = dict(st['state'], loop=j)
        out['consumers'].update(st['consumers'])
        out['outside'] |= st['outside']
    for cons in shape.get('xconsumers', []):
        must, may = set(), set()
        for (j, pi, method, fil) in cons['refs']:
            loop = loops_of(shape)[j]
            p = loop['comps'][pi]
            cond = loop['comps'][loop['cond']]
            may |= {ident(comp_stage(loop, cond), inst_name(i, cond['name'])) for i in range(ks[j] + 1)}
            for base in replica_names(p):
                ph = per_loop[j]['placeholders'][ident(comp_stage(loop, p), base)]
                must.add(ph['latest'])
                may |= ph['represents']
                if method in ('loopref', 'loopoutput'):
                    must |= ph['represents']
        out['consumers'][ident(cons['stage'], cons['name'])] = {'must': must, 'may': may | must}
    return out
