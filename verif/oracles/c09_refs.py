"""Reference model for C09, written from the property statement. Must not import `experiment.*`.

A *case* is a structured reference, never a string that has to be parsed to know what it means:

    {'prefix': None | int,          # explicit "stage<N>." prefix
     'kind':   'name' | 'reserved' | 'appdep' | 'manifest' | 'nested' | 'abs' | 'var',
     'head':   str,                 # the first path segment (for 'abs': the absolute directory)
     'path':   None | str,          # what follows the first segment, no leading/trailing '/'
     'method': str}

A *context* is {'known': {stage(int): [names]}, 'manifest': {key: source}, 'appdeps': [declared ids], 'stage': int}.
The kind in the case says how the head was *drawn*; what the head *is* under a context is decided by `folder_role`
from the context alone (the same string is a manifest folder in one context and an unknown name in the next).
"""

RESERVED = ('input', 'data', 'bin', 'conf')
METHODS = ('copy', 'link', 'ref', 'copyout', 'extract', 'output', 'loopref', 'loopoutput')


def spell(case, prefix='case'):
    """The reference string of a case. prefix='case' -> as drawn; None -> relative; int -> that stage."""
    p = case['prefix'] if prefix == 'case' else prefix
    body = case['head'] if case['path'] is None else '%s/%s' % (case['head'], case['path'])
    s = '%s:%s' % (body, case['method'])
    return s if p is None else 'stage%d.%s' % (p, s)


def location(case):
    """The path a reference names below its root: head[/path]."""
    return case['head'] if case['path'] is None else '%s/%s' % (case['head'], case['path'])


def appdep_folder(appdep_id):
    """Documented in the package format: leading directories and the extension are dropped, name is lower-cased."""
    a = appdep_id.rstrip('/')
    a = a.rsplit('/', 1)[-1]
    if '.' in a:
        a = a.rsplit('.', 1)[0]
    return a.lower()


def manifest_top_folders(manifest):
    """First path segment of every manifest key (keys may name nested target folders)."""
    out = []
    for k in manifest:
        seg = k.split('/', 1)[0]
        if seg not in out:
            out.append(seg)
    return out


def folder_role(head, ctx):
    """Why the first segment `head` cannot be a component under ctx (None if no such reason)."""
    if head.startswith('/'):
        return 'absolute'
    if '%(' in head:
        return 'variable'
    if head in RESERVED:
        return 'reserved'
    if head in [appdep_folder(a) for a in ctx['appdeps']]:
        return 'appdep'
    if head in ctx['manifest']:
        return 'manifest'
    if head in manifest_top_folders(ctx['manifest']):
        return 'nested-manifest'
    return None


def all_known_names(ctx):
    return set(n for names in ctx['known'].values() for n in names)


def context_is_supported(ctx):
    """Components that share a name with a folder of the package are documented as unsupported -> not judged."""
    folders = set(RESERVED) | set(appdep_folder(a) for a in ctx['appdeps']) | set(manifest_top_folders(ctx['manifest']))
    return not (folders & all_known_names(ctx))


def classify(case, ctx):
    """'not-component:<why>' | 'component' | 'open' (the statement does not decide) | 'excluded' (an explicit stage
    prefix in front of something that is a folder in this context: not judged at all)."""
    role = folder_role(case['head'], ctx)
    if case['prefix'] is None:
        if role is not None:
            return 'not-component:' + role
        stage = ctx['stage']
    else:
        if role is not None:
            return 'excluded'
        stage = case['prefix']
    if case['head'] in ctx['known'].get(stage, []):
        return 'component'
    return 'open'


def effective_stage(case, ctx):
    return ctx['stage'] if case['prefix'] is None else case['prefix']


def absolute_spelling(case, ctx):
    return spell(case, effective_stage(case, ctx))
