"""Reference model for C11, written from the property statement. Must not import `experiment.*`.

It answers two questions about a *document pair* root = {'doc': <FlowIR dict>, 'dowhile': <DoWhile document dict>|None}
that is going to be loaded for one platform:

  analyse(root, platform, nonc)  -> Analysis: which of the six faults the statement names are present
        (unknown option key, wrongly typed option, duplicate identifiers, dangling component reference, dependency
        cycle, undefined variable), each with the position it was found at, plus `grey` reasons: aspects the statement
        does not decide.  verdict(): 'broken' (>=1 judged fault) | 'grey' | 'valid'.
  soundness(obs, nonc) -> list of (sig, why): is an *accepted* load structurally executable (DAG, unique ids, every
        component reference points at a node or a loop placeholder, every configuration resolved).

The schema table below is the documented FlowIR layout (top-level sections, component options at every nesting level,
the DoWhile document) restated as data; user-chosen names (platforms, variables, environments, outputs) are `M` maps
whose keys are never "option keys".
"""
import re

RESERVED = ('input', 'data', 'bin', 'conf')
METHODS = ('copy', 'link', 'ref', 'copyout', 'extract', 'output', 'loopref', 'loopoutput')
VAR_RE = re.compile(r'%\(([a-zA-Z0-9_.-]+)\)s')
INDEX_RE = re.compile(r'\[\d+\]')
BUILTIN_VARS = ('replica', 'loopIteration')
BOOLISH = ('true', 'false', 'yes', 'no', 'on', 'off', 'y', 'n', '1', '0')
DEFAULT = 'default'


# ------------------------------------------------------------------------------------------------ schema table
class T(object):
    """A typed leaf. kind: str|enum|int|num|float|bool|list|dict|prim ; none: None allowed ; var: '%(x)s' allowed."""

    def __init__(self, kind, none=False, var=False, elem=None):
        self.kind, self.none, self.var, self.elem = kind, none, var, elem

    def __repr__(self):
        return 'T(%s%s%s)' % (self.kind, '?' if self.none else '', '|var' if self.var else '')


class M(object):
    """A map whose keys are user-chosen names (not option keys); every value follows `value`."""

    def __init__(self, value, label=None):
        self.value, self.label = value, label


class L(object):
    """A list whose items each follow `item` (a dict schema or a T)."""

    def __init__(self, item):
        self.item = item


S, SN = T('str'), T('str', none=True)
B, BV = T('bool'), T('bool', var=True)
IV, INV = T('int', var=True), T('int', none=True, var=True)
NV, NNV = T('num', var=True), T('num', none=True, var=True)
FV = T('float', var=True)
LS = T('list', elem='str')

EXECUTOR = L({'name': S, 'payload': S})


def comp_options():
    return {
        'references': LS,
        'workflowAttributes': {
            'restartHookFile': SN, 'aggregate': B, 'replicate': INV, 'isMigratable': BV, 'isMigrated': B,
            'repeatInterval': NNV, 'shutdownOn': LS, 'restartHookOn': LS, 'isRepeat': B, 'maxRestarts': INV,
            'repeatRetries': INV,
            'memoization': {'embeddingFunction': SN, 'disable': {'strong': BV, 'fuzzy': BV}},
            'optimizer': {'disable': BV, 'exploitChance': FV, 'exploitTarget': FV, 'exploitTargetLow': FV,
                          'exploitTargetHigh': FV},
        },
        'resourceManager': {
            'config': {'backend': S, 'walltime': NV},
            'lsf': {'statusRequestInterval': NV, 'queue': S, 'reservation': SN, 'resourceString': SN,
                    'dockerImage': SN, 'dockerProfileApp': SN, 'dockerOptions': SN},
            'kubernetes': {'image': SN, 'qos': T('enum', none=True, var=True), 'image-pull-secret': SN, 'namespace': SN,
                           'api-key-var': SN, 'host': SN, 'cpuUnitsPerCore': NNV, 'gracePeriod': INV,
                           'podSpec': T('dict', none=True)},
            'docker': {'image': SN, 'imagePullPolicy': T('enum', none=True, var=True), 'platform': SN},
        },
        'resourceRequest': {'numberProcesses': IV, 'numberThreads': IV, 'ranksPerNode': IV, 'threadsPerCore': IV,
                            'memory': T('enum', none=True, var=True), 'gpus': INV},
        'executors': {'pre': EXECUTOR, 'main': L({}), 'post': EXECUTOR},
        'command': {'resolvePath': BV, 'executable': S, 'arguments': S, 'environment': SN, 'interpreter': SN,
                    'expandArguments': T('enum', var=True)},
    }


VARMAP = M(T('prim'), 'variables')


def comp_full():
    d = comp_options()
    ov = comp_options()
    ov['variables'] = VARMAP
    d.update({'name': S, 'stage': T('int'), 'variables': VARMAP, 'override': M(ov, 'platform')})
    return d


COMP_IMPORT = {'name': S, 'stage': T('int'), 'bindings': M(S, 'binding'), '$import': S}
STAGEMAP_VARS = M(VARMAP, 'stage')
DOC_SCHEMA = {
    'components': 'COMPONENTS',
    'variables': M({'global': VARMAP, 'stages': STAGEMAP_VARS}, 'platform'),
    'environments': M(M(M(T('prim'), 'envvar'), 'environment'), 'platform'),
    'blueprint': M({'global': comp_options(), 'stages': M(comp_options(), 'stage')}, 'platform'),
    'status-report': M({'stage-weight': T('float'), 'executable': S, 'arguments': S, 'references': LS}, 'stage'),
    'application-dependencies': M(LS, 'platform'),
    'output': M({'description': S, 'stages': T('list', elem='any'), 'type': S, 'data-in': S}, 'output'),
    'platforms': LS,
    'virtual-environments': M(LS, 'platform'),
    'version': T('enum'),
}
DOWHILE_SCHEMA = {
    'type': T('enum'),
    'inputBindings': M({'type': T('enum')}, 'binding'),
    'loopBindings': M(S, 'binding'),
    'components': 'COMPONENTS',
    'condition': S,
}
# the user's variables file (variable_files= of the loader): values for all stages / for one stage
USERVARS_SCHEMA = {'global': VARMAP, 'stages': STAGEMAP_VARS}
ROOT_SCHEMA = {'doc': DOC_SCHEMA, 'dowhile': DOWHILE_SCHEMA, 'uservars': USERVARS_SCHEMA}


# ------------------------------------------------------------------------------------------------ value typing
def is_var_like(s):
    return bool(VAR_RE.search(s) or INDEX_RE.search(s))


def _plain_wrong_string(s):
    """A string that cannot be read as a number, a boolean word or a variable reference."""
    if is_var_like(s) or s.strip().lower() in BOOLISH:
        return False
    try:
        float(s)
        return False
    except ValueError:
        return True


def type_verdict(v, t):
    """'ok' | 'wrong' | 'grey' -- 'wrong' only when the value is unambiguously of another type."""
    if v is None:
        return 'ok' if t.none else 'grey'
    k = t.kind
    if isinstance(v, (list, tuple)):
        if k != 'list':
            return 'wrong'
        if t.elem == 'str':
            return 'ok' if all(isinstance(x, str) for x in v) else ('wrong' if any(isinstance(x, (list, dict)) for x in v) else 'grey')
        return 'ok'
    if isinstance(v, dict):
        return 'ok' if k == 'dict' else 'wrong'
    if k in ('list', 'dict'):
        return 'wrong'
    if k == 'prim':
        return 'ok'
    if isinstance(v, str):
        if k in ('str', 'enum'):
            return 'ok'
        if is_var_like(v):
            return 'ok' if t.var else 'grey'
        return 'wrong' if _plain_wrong_string(v) else 'grey'
    if isinstance(v, bool):
        return 'ok' if k == 'bool' else 'grey'
    if isinstance(v, int):
        return 'ok' if k in ('int', 'num') else 'grey'
    if isinstance(v, float):
        if k in ('float', 'num'):
            return 'ok'
        # a number with a fractional part is not an integer (2.0 for an integer, and numbers for strings: open)
        return 'wrong' if k == 'int' and v == v and v not in (float('inf'), float('-inf')) and v != int(v) else 'grey'
    return 'grey'


# ------------------------------------------------------------------------------------------------ references
def parse_ref(ref):
    """'[stageN.]producer[/path]:method' -> (stage|None, producer, path|None, method) or None."""
    if not isinstance(ref, str) or ':' not in ref:
        return None
    body, method = ref.rsplit(':', 1)
    if method not in METHODS or not body:
        return None
    if body.startswith('/'):
        return (None, body, None, method)
    stage = None
    m = re.match(r'^stage(\d+)\.(.+)$', body)
    if m:
        stage, body = int(m.group(1)), m.group(2)
    producer, _, path = body.partition('/')
    return (stage, producer, path or None, method)


def is_noncomponent(producer, nonc, stage=None):
    """Is `[stageN.]producer...` a reference to a folder/path rather than to a component?  Folders have no stage: a
    reference with an explicit stage prefix names a component even when a folder of the package (application
    dependency, top-level folder) has the same name; only the spelling without a stage prefix means the folder."""
    if producer.startswith('/'):
        return True
    return stage is None and (producer in RESERVED or producer in nonc)


ARG_REF_RE = re.compile(r'(?:stage\d+\.)?[A-Za-z0-9_.#-]+(?:/[A-Za-z0-9_./-]*)?:(?:%s)\b' % '|'.join(METHODS))


# ------------------------------------------------------------------------------------------------ analysis
class Analysis(object):
    def __init__(self):
        self.unknown = []      # (path, scope)
        self.wrong = []        # (path, scope)
        self.duplicates = []   # 'stageN.name'
        self.dangling = []     # (consumer, reference)
        self.cycle = []        # ids on a cycle (empty: none)
        self.undefined = []    # (component, variable)
        self.grey = []         # reasons
        self.key_positions = []    # (path_of_container, key, scope) for every schema-constant key present
        self.typed_positions = []  # (path, T|'section'|'list', scope) for every typed position present
        self.var_positions = []    # (path_of_map, name, scope) for every variable definition
        self.containers = []       # (path, scope) of every dict whose keys are fixed by the schema
        self.comp_ids = []         # ids of executable (non-import) main components + placeholders
        self.edges = []
        self.replicas = None       # {where: replicas} when the model can tell

    def fault_scopes(self, judge_all=True):
        """{fault kind: sorted scopes}. Unknown keys / wrong types carry the scope of the place they were found at:
        'active' (a section that shapes the configuration of the platform being loaded), 'inactive' (a section of
        another platform), 'ineffective' (a wrongly typed value every component overrides, or of a variable nobody
        uses), 'derived' (a value the format defines as computed: `platforms`, `isRepeat`; never judged)."""
        ok = ('active', 'inactive', 'ineffective') if judge_all else ('active',)
        out = {}
        for kind, lst in (('unknown-key', self.unknown), ('wrong-type', self.wrong)):
            sc = sorted(set(s for _, s in lst if s in ok))
            if sc:
                out[kind] = sc
        if self.duplicates:
            out['duplicate'] = ['active']
        if self.dangling:
            out['dangling'] = ['active']
        if self.cycle:
            out['cycle'] = ['active']
        if self.undefined:
            out['undefined-variable'] = ['active']
        return out

    def faults(self, judge_all=True):
        order = ('unknown-key', 'wrong-type', 'duplicate', 'dangling', 'cycle', 'undefined-variable')
        fs = self.fault_scopes(judge_all)
        return [k for k in order if k in fs]

    def verdict(self, judge_all=True):
        if self.faults(judge_all):
            return 'broken'
        if self.grey or self.unknown or self.wrong:
            return 'grey'
        return 'valid'

    def grey_classes(self):
        out = set(g.split(':', 1)[0] for g in self.grey)
        out |= set('%s-%s' % (kind, sc) for kind, lst in (('unknown-key', self.unknown), ('wrong-type', self.wrong))
                   for _, sc in lst if sc != 'active')
        return sorted(out)


def _scope_for_platform(label, platform):
    return 'active' if label in (DEFAULT, platform or DEFAULT) else 'inactive'


def _walk(v, schema, path, scope, platform, an, comp_flavor):
    """Walks value `v` against `schema`, recording positions and unknown keys / wrong types."""
    if schema == 'COMPONENTS':
        an.typed_positions.append((path, 'list', scope))
        if not isinstance(v, list):
            an.wrong.append((path, scope))
            return
        for i, c in enumerate(v):
            if not isinstance(c, dict):
                an.wrong.append((path + (i,), scope))
                continue
            sch = COMP_IMPORT if '$import' in c else comp_full()
            _walk(c, sch, path + (i,), scope, platform, an, comp_flavor)
        return
    if isinstance(schema, T):
        an.typed_positions.append((path, schema, scope))
        tv = type_verdict(v, schema)
        if tv == 'wrong':
            an.wrong.append((path, scope))
        elif tv == 'grey':
            an.grey.append('value-type-open:%s' % '.'.join(map(str, path)))
        return
    if isinstance(schema, L):
        an.typed_positions.append((path, 'list', scope))
        if not isinstance(v, list):
            an.wrong.append((path, scope))
            return
        for i, item in enumerate(v):
            if isinstance(schema.item, dict) and not schema.item:
                an.grey.append('executors-main-item')
            else:
                _walk(item, schema.item, path + (i,), scope, platform, an, comp_flavor)
        return
    if isinstance(schema, M):
        an.typed_positions.append((path, 'section', scope))
        if not isinstance(v, dict):
            if v is None:
                an.grey.append('null-section:%s' % '.'.join(map(str, path)))
            else:
                an.wrong.append((path, scope))
            return
        for k, sub in v.items():
            sc = scope
            if schema.label == 'platform':
                sc = scope if scope != 'active' else _scope_for_platform(k, platform)
            if schema.label == 'variables':
                an.var_positions.append((path, k, sc))
            _walk(sub, schema.value, path + (k,), sc, platform, an, comp_flavor)
        return
    # dict schema with constant keys
    if path:
        an.typed_positions.append((path, 'section', scope))
    if isinstance(v, dict):
        an.containers.append((path, scope))
    if not isinstance(v, dict):
        if v is None:
            an.grey.append('null-section:%s' % '.'.join(map(str, path)))
        else:
            an.wrong.append((path, scope))
        return
    for k, sub in v.items():
        if k in schema:
            an.key_positions.append((path, k, scope))
            _walk(sub, schema[k], path + (k,), scope, platform, an, comp_flavor)
        else:
            an.unknown.append((path + (k,), scope))


def _strings(obj, skip=()):
    """All string leaves of obj (dict keys in `skip` are not descended into at the top level)."""
    out = []
    if isinstance(obj, str):
        out.append(obj)
    elif isinstance(obj, dict):
        for k, v in obj.items():
            if k in skip:
                continue
            out.extend(_strings(v))
    elif isinstance(obj, list):
        for v in obj:
            out.extend(_strings(v))
    return out


def _get(d, *keys):
    for k in keys:
        if not isinstance(d, dict) or k not in d:
            return None
        d = d[k]
    return d


def _dict(d):
    return d if isinstance(d, dict) else {}


def _stage_of(c, offset=0):
    s = c.get('stage', 0)
    if isinstance(s, bool) or not isinstance(s, int):
        return None
    return s + offset


def _has_path(d, op):
    """Does dict d define option path op, an ancestor of it as a non-dict, or (when op names a section) anything below."""
    cur = d
    for k in op:
        if not isinstance(cur, dict):
            return True
        if k not in cur:
            return False
        cur = cur[k]
    return True


def component_table(root, platform):
    """Executable components of the document pair: list of dicts
    {id:(stage,name), where:('doc'|'dowhile', index), comp, loop:bool, stage}. Import components are listed apart."""
    doc = _dict(root.get('doc'))
    comps, imports = [], []
    main = doc.get('components')
    for i, c in enumerate(main if isinstance(main, list) else []):
        if not isinstance(c, dict):
            continue
        st, name = _stage_of(c), c.get('name')
        entry = {'where': ('doc', i), 'comp': c, 'stage': st, 'name': name if isinstance(name, str) else None,
                 'loop': False}
        (imports if '$import' in c else comps).append(entry)
    dw = root.get('dowhile')
    inner = []
    if isinstance(dw, dict) and imports:
        imp = imports[0]
        off = imp['stage'] if imp['stage'] is not None else 0
        lst = dw.get('components')
        for i, c in enumerate(lst if isinstance(lst, list) else []):
            if not isinstance(c, dict):
                continue
            name = c.get('name')
            inner.append({'where': ('dowhile', i), 'comp': c, 'stage': _stage_of(c, off),
                          'name': name if isinstance(name, str) else None, 'loop': True, 'offset': off})
    return comps, imports, inner


def analyse(root, platform, nonc=()):
    """root = {'doc': FlowIR dict, 'dowhile': DoWhile document or None}; nonc: first path segments that are folders of
    the package (application dependencies) besides the reserved ones."""
    an = Analysis()
    plat = platform or DEFAULT
    doc = root.get('doc')
    if not isinstance(doc, dict):
        an.grey.append('document-not-a-dict')
        return an
    _walk(doc, DOC_SCHEMA, ('doc',), 'active', platform, an, 'full')
    dw = root.get('dowhile')
    if dw is not None:
        _walk(dw, DOWHILE_SCHEMA, ('dowhile',), 'active', platform, an, 'full')
    uservars = root.get('uservars')
    if uservars is not None:
        _walk(uservars, USERVARS_SCHEMA, ('uservars',), 'active', platform, an, 'full')
    comps, imports, inner = component_table(root, platform)
    allc = comps + inner
    if not comps:
        an.grey.append('no-executable-main-component')
    if len(imports) > 1:
        an.grey.append('several-imports')
    stages = sorted(set(e['stage'] for e in comps + imports + inner if e['stage'] is not None))
    if stages and stages != list(range(len(stages))):
        an.grey.append('stage-gap:%s' % stages)

    # ---- identifiers
    seen = {}
    for e in comps:
        if e['name'] is None or e['stage'] is None:
            continue
        cid = (e['stage'], e['name'])
        seen[cid] = seen.get(cid, 0) + 1
    for e in imports:
        if e['name'] is not None and e['stage'] is not None and (e['stage'], e['name']) in seen:
            an.grey.append('import-name-collides-with-component:stage%s.%s' % (e['stage'], e['name']))
    seen_inner = {}
    for e in inner:
        if e['name'] is None or e['stage'] is None:
            continue
        cid = (e['stage'], e['name'])
        seen_inner[cid] = seen_inner.get(cid, 0) + 1
        if cid in seen:
            an.grey.append('loop-name-collides-with-main:stage%s.%s' % cid)
    for table in (seen, seen_inner):
        for cid, n in sorted(table.items()):
            if n > 1:
                an.duplicates.append('stage%s.%s' % cid)
    exec_ids = set((e['stage'], e['name']) for e in allc if e['name'] is not None and e['stage'] is not None)
    import_ids = set((e['stage'], e['name']) for e in imports if e['name'] is not None and e['stage'] is not None)
    an.comp_ids = sorted(exec_ids)

    # ---- bindings of the loop
    input_bindings = _dict(_get(dw, 'inputBindings')) if isinstance(dw, dict) else {}
    given_bindings = _dict(imports[0]['comp'].get('bindings')) if imports else {}
    if isinstance(dw, dict) and imports:
        cond = parse_ref(dw.get('condition')) if isinstance(dw.get('condition'), str) else None
        off = imports[0]['stage'] or 0
        if cond is None or ((cond[0] or 0) + off, cond[1]) not in exec_ids:
            an.grey.append('loop-condition-producer-missing')
        for b in input_bindings:
            if b not in given_bindings:
                an.grey.append('binding-not-provided:%s' % b)
        for b in given_bindings:
            if b not in input_bindings:
                an.grey.append('binding-not-declared:%s' % b)

    # ---- references, edges
    edges = []
    for e in allc:
        if e['name'] is None or e['stage'] is None:
            continue
        me = (e['stage'], e['name'])
        refs = e['comp'].get('references')
        declared = set()
        for r in refs if isinstance(refs, list) else []:
            p = parse_ref(r)
            if p is None:
                if isinstance(r, str):
                    an.grey.append('unparsable-reference:%s' % r)
                continue
            stage, producer, path, method = p
            if e['loop'] and stage is None and producer in input_bindings:
                # a binding: stands for the reference the importing component provides
                target = parse_ref(given_bindings.get(producer)) if isinstance(given_bindings.get(producer), str) else None
                if target is None:
                    continue
                if is_noncomponent(target[1], nonc, target[0]):
                    continue
                stage, producer = target[0] if target[0] is not None else imports[0]['stage'], target[1]
                if stage is None:
                    continue
                tid = (stage, producer)
            else:
                if is_noncomponent(producer, nonc, stage):
                    continue
                tid = ((stage + e.get('offset', 0)) if stage is not None else e['stage'], producer)
            declared.add(tid + (path, method))
            if tid in exec_ids:
                edges.append((tid, me))
            elif tid in import_ids:
                an.grey.append('reference-to-import-component:%s' % r)
            else:
                an.dangling.append(('stage%s.%s' % me, r))
        # references spelled in the command line but not declared
        args = _get(e['comp'], 'command', 'arguments')
        over_args = _get(e['comp'], 'override', plat, 'command', 'arguments')
        for a in (args, over_args):
            for tok in ARG_REF_RE.findall(a) if isinstance(a, str) else []:
                p = parse_ref(tok)
                if p is None or is_noncomponent(p[1], nonc, p[0]) or (e['loop'] and p[0] is None and p[1] in input_bindings):
                    continue
                tid = ((p[0] + e.get('offset', 0)) if p[0] is not None else e['stage'], p[1])
                if tid in exec_ids and tid + (p[2], p[3]) not in declared:
                    an.grey.append('undeclared-reference-in-arguments:%s' % tok)
    an.edges = sorted(set(edges))

    # ---- cycle (self loops count)
    succ = {}
    for a, b in an.edges:
        succ.setdefault(a, set()).add(b)
    color = {}

    def dfs(n, stack):
        color[n] = 1
        stack.append(n)
        for m in sorted(succ.get(n, ())):
            if color.get(m) == 1:
                return stack[stack.index(m):]
            if m not in color:
                r = dfs(m, stack)
                if r:
                    return r
        stack.pop()
        color[n] = 2
        return None

    for n in sorted(succ):
        if n not in color:
            cyc = dfs(n, [])
            if cyc:
                an.cycle = ['stage%s.%s' % c for c in cyc]
                break

    # ---- references outside components (outputs / status report): open
    for name, out in _dict(doc.get('output')).items():
        p = parse_ref(_get(out, 'data-in')) if isinstance(_get(out, 'data-in'), str) else None
        if p is not None and not is_noncomponent(p[1], nonc, p[0]) and p[0] is not None and (p[0], p[1]) not in exec_ids:
            an.grey.append('output-references-missing-component:%s' % name)

    # ---- variables: what each component can see
    variables = _dict(doc.get('variables'))
    blueprint = _dict(doc.get('blueprint'))
    used_anywhere = set()
    for e in allc:
        if e['stage'] is None:
            continue
        c, st = e['comp'], e['stage']
        ctx = {}
        for src in (_get(variables, DEFAULT, 'global'), _get(_get(variables, DEFAULT, 'stages'), st),
                    _get(variables, plat, 'global') if plat != DEFAULT else None,
                    _get(_get(variables, plat, 'stages'), st) if plat != DEFAULT else None,
                    # what the user supplies with the load: for every stage / for this stage only
                    _get(root.get('uservars'), 'global'), _get(_get(root.get('uservars'), 'stages'), st),
                    c.get('variables'), _get(c, 'override', plat, 'variables')):
            if isinstance(src, dict):
                ctx.update(src)
        e['ctx'] = ctx
        e['layers'] = [_get(blueprint, DEFAULT, 'global'), _get(_get(blueprint, DEFAULT, 'stages'), st)]
        if plat != DEFAULT:
            e['layers'] += [_get(blueprint, plat, 'global'), _get(_get(blueprint, plat, 'stages'), st)]

    # ---- replication: which components are expanded into <name><k>, identifiers after expansion
    replicas = _replication(allc, an, plat)
    an.replicas = replicas
    if replicas is not None:
        expanded = {}
        for e in allc:
            if e['name'] is None or e['stage'] is None:
                continue
            n = replicas.get(e['where'], 0)
            for xid in ([(e['stage'], '%s%d' % (e['name'], k)) for k in range(n)] if n else [(e['stage'], e['name'])]):
                expanded.setdefault(xid, []).append(e)
        for xid, owners in sorted(expanded.items()):
            if len(owners) > 1 and len(set(o['name'] for o in owners)) > 1:
                an.duplicates.append('stage%s.%s (after replication)' % xid)

    # ---- variables: every name a component uses must be defined for it
    for e in allc:
        if e['stage'] is None:
            continue
        c, st, ctx = e['comp'], e['stage'], e['ctx']
        strings = _strings(c, skip=('variables', 'override'))
        strings += _strings(_dict(_get(c, 'override', plat)), skip=('variables',))
        for l in e['layers']:
            strings += _strings(_dict(l))
        todo = [n for s in strings for n in VAR_RE.findall(s)]
        done = set()
        while todo:
            n = todo.pop()
            if n in done:
                continue
            done.add(n)
            if n in ctx:
                if isinstance(ctx[n], str):
                    todo.extend(VAR_RE.findall(ctx[n]))
            elif n == 'replica':
                # defined by replication, and only for the components that are replicated
                if replicas is not None and not replicas.get(e['where'], 0):
                    an.undefined.append(('stage%s.%s' % (st, e['name']), n))
            elif n not in BUILTIN_VARS:
                an.undefined.append(('stage%s.%s' % (st, e['name']), n))
        used_anywhere |= done
        e['used_vars'] = done

    # ---- variables inside environment values: resolved leniently by design, not part of a component configuration
    envs = _dict(doc.get('environments'))
    gvars = dict(_dict(_get(variables, DEFAULT, 'global')))
    gvars.update(_dict(_get(variables, plat, 'global')))
    for label in sorted(set((DEFAULT, plat))):
        for ename, env in _dict(envs.get(label)).items():
            for s_ in _strings(_dict(env)):
                for n in VAR_RE.findall(s_):
                    if n not in gvars and n not in _dict(env):
                        an.grey.append('undefined-variable-in-environment:%s.%s' % (ename, n))
    an.used_vars = used_anywhere
    # a wrongly typed value that a higher layer overrides for every component it applies to (or a variable nobody
    # uses) never reaches a component: the statement does not say whether that workflow "contains" the fault
    an.wrong = [(p, ('derived' if is_derived(p) else
                     'ineffective' if sc == 'active' and effective(allc, root, platform, p) is False else sc))
                for p, sc in an.wrong]
    return an


def _replication(allc, an, plat):
    """{where: number of replicas (0 = not replicated)} or None when the model cannot tell (then nothing that depends
    on replication is judged).  A component is replicated n times when it sets replicate n, or consumes from a
    replicated component that does not aggregate; an aggregating component is never replicated itself."""
    by_id = {}
    for e in allc:
        if e['name'] is None or e['stage'] is None:
            continue
        if (e['stage'], e['name']) in by_id:
            return None
        by_id[(e['stage'], e['name'])] = e
    own, agg = {}, {}
    for cid, e in by_id.items():
        for l in list(e.get('layers', [])) + [_get(e['comp'], 'override', plat)]:
            wa = _get(l, 'workflowAttributes')
            if isinstance(wa, dict) and (wa.get('replicate') not in (None, 0) or wa.get('aggregate') not in (None, False)):
                return None     # replication decided by a blueprint / override layer: not modelled
        wa = _dict(_get(e['comp'], 'workflowAttributes'))
        rep, ag = wa.get('replicate'), wa.get('aggregate')
        if isinstance(rep, str):
            m = VAR_RE.fullmatch(rep.strip())
            rep = e['ctx'].get(m.group(1)) if m else rep
            if isinstance(rep, str) and rep.strip().isdigit():
                rep = int(rep.strip())
        if rep is None or (isinstance(rep, int) and not isinstance(rep, bool) and rep >= 0):
            own[cid] = rep or 0
        else:
            return None
        if ag is None or isinstance(ag, bool):
            agg[cid] = bool(ag)
        else:
            return None
    if an.cycle:
        return None
    preds = {}
    for a, b in an.edges:
        if a in by_id and b in by_id:
            preds.setdefault(b, set()).add(a)
    eff = {}

    def resolve(cid, depth=0):
        if cid in eff:
            return eff[cid]
        if depth > len(by_id) + 1:
            raise ValueError('cycle')
        vals = set([own[cid]] if own[cid] else [])
        for p in preds.get(cid, ()):
            if not agg[p]:
                v = resolve(p, depth + 1)
                if v:
                    vals.add(v)
        if len(vals) > 1:
            raise ValueError('inconsistent')
        eff[cid] = vals.pop() if vals else 0
        return eff[cid]

    try:
        for cid in sorted(by_id):
            resolve(cid)
    except ValueError:
        an.grey.append('replication-open')
        return None
    return dict((by_id[cid]['where'], 0 if agg[cid] else eff[cid]) for cid in by_id)


def is_derived(path):
    """Values the format defines as computed from the rest of the document (what is written is not what is used)."""
    p = tuple(path)
    return p[:2] == ('doc', 'platforms') or p[-2:] == ('workflowAttributes', 'isRepeat')


# ------------------------------------------------------------------------------------------------ layering (shadowing)
LAYER_ORDER = ('bp-default-global', 'bp-default-stage', 'bp-plat-global', 'bp-plat-stage', 'component', 'override')


def option_position(path, platform):
    """Maps a path inside root to (layer, selector, option path) when it lies in a component-option structure that
    applies to the active platform; None otherwise. selector: None (all), ('stage', n), ('comp', where)."""
    plat = platform or DEFAULT
    p = tuple(path)
    if len(p) >= 3 and p[0] in ('doc', 'dowhile') and p[1] == 'components' and isinstance(p[2], int):
        where = (p[0], p[2])
        rest = p[3:]
        if rest[:1] == ('override',):
            if len(rest) >= 2 and rest[1] == plat:
                if rest[2:3] == ('variables',):
                    return ('var-override', ('comp', where), rest[3:])
                return ('override', ('comp', where), rest[2:])
            return None
        if rest[:1] == ('variables',):
            return ('var-component', ('comp', where), rest[1:])
        return ('component', ('comp', where), rest)
    if p[:2] == ('doc', 'blueprint') and len(p) >= 4:
        label, kind = p[2], p[3]
        if label not in (DEFAULT, plat):
            return None
        base = 'bp-default' if label == DEFAULT else 'bp-plat'
        if kind == 'global':
            return (base + '-global', None, p[4:])
        if kind == 'stages' and len(p) >= 5:
            return (base + '-stage', ('stage', p[4]), p[5:])
    if p[:2] == ('doc', 'variables') and len(p) >= 4:
        label, kind = p[2], p[3]
        if label not in (DEFAULT, plat):
            return None
        base = 'var-default' if label == DEFAULT else 'var-plat'
        if kind == 'global':
            return (base + '-global', None, p[4:])
        if kind == 'stages' and len(p) >= 5:
            return (base + '-stage', ('stage', p[4]), p[5:])
    return None


VAR_LAYER_ORDER = ('var-default-global', 'var-default-stage', 'var-plat-global', 'var-plat-stage', 'var-component',
                   'var-override')


def effective(allc, root, platform, path):
    """Is the value at `path` (an option or variable value in a section that applies to the active platform) actually
    what some component ends up with -- i.e. not overridden by a higher layer for every component it applies to?
    Returns True / False; None when the path is not inside a layered structure (then layering does not matter)."""
    pos = option_position(path, platform)
    if pos is None:
        return None
    layer, sel, op = pos
    plat = platform or DEFAULT
    doc = _dict(root.get('doc'))
    if sel is None:
        targets = allc
    elif sel[0] == 'stage':
        targets = [e for e in allc if e['stage'] == sel[1]]
    else:
        targets = [e for e in allc if e['where'] == sel[1]]
    if not op:
        return True if targets else False
    is_var = layer.startswith('var-')
    order = VAR_LAYER_ORDER if is_var else LAYER_ORDER
    higher = order[order.index(layer) + 1:]
    for e in targets:
        c, st = e['comp'], e['stage']
        if is_var:
            srcs = {
                'var-default-global': _get(doc, 'variables', DEFAULT, 'global'),
                'var-default-stage': _get(_get(doc, 'variables', DEFAULT, 'stages'), st),
                'var-plat-global': _get(doc, 'variables', plat, 'global') if plat != DEFAULT else None,
                'var-plat-stage': _get(_get(doc, 'variables', plat, 'stages'), st) if plat != DEFAULT else None,
                'var-component': c.get('variables'), 'var-override': _get(c, 'override', plat, 'variables')}
            if op[0] not in e.get('used_vars', ()):
                continue        # this component does not use the variable at all
        else:
            srcs = {
                'bp-default-global': _get(doc, 'blueprint', DEFAULT, 'global'),
                'bp-default-stage': _get(_get(doc, 'blueprint', DEFAULT, 'stages'), st),
                'bp-plat-global': _get(doc, 'blueprint', plat, 'global') if plat != DEFAULT else None,
                'bp-plat-stage': _get(_get(doc, 'blueprint', plat, 'stages'), st) if plat != DEFAULT else None,
                'component': c, 'override': _get(c, 'override', plat)}
        if not any(isinstance(srcs[h], dict) and _has_path(srcs[h], op) for h in higher):
            return True
    return False


# ------------------------------------------------------------------------------------------------ soundness of a load
def soundness(obs, nonc=()):
    """obs = {'nodes': [ids], 'edges': [[u,v]], 'component_ids': [ids as listed, with repetitions],
             'configs': {id: {'error': str} | {'references': [...], 'stage': int}}}
    Returns a list of (sig, why)."""
    out = []
    nodes = list(obs['nodes'])
    nodeset = set(nodes)
    listed = list(obs['component_ids'])
    dups = sorted(set(x for x in listed if listed.count(x) > 1))
    if dups or len(nodes) != len(nodeset):
        out.append(('unsound:duplicate-ids', 'accepted workflow lists identifiers more than once: %r' % dups))
    # placeholders: a looped component stageN.<k>#<name> stands behind the placeholder stageN.<name>
    placeholders = {}
    for n in nodeset:
        m = re.match(r'^stage(\d+)\.(\d+)#(.+)$', n)
        if m:
            placeholders.setdefault('stage%s.%s' % (m.group(1), m.group(3)), []).append(n)
    # dependency relation = the graph's edges plus the edges the resolved references imply (so that a reference the
    # graph builder overlooked still counts for the cycle test)
    alledges = set()
    for u, v in obs['edges']:
        if u not in nodeset or v not in nodeset:
            out.append(('unsound:edge-to-unknown-node', 'edge %s -> %s names a node that does not exist' % (u, v)))
            continue
        alledges.add((u, v))
    for n in sorted(nodeset):
        cfg = obs['configs'].get(n)
        if cfg is None or 'error' in cfg:
            out.append(('unsound:configuration-unresolvable',
                        'configuration of %s cannot be resolved: %s' % (n, (cfg or {}).get('error', 'missing'))))
            continue
        for r in cfg['references']:
            p = parse_ref(r)
            if p is None:
                out.append(('unsound:reference-unparsable', '%s keeps a reference that is no reference: %r' % (n, r)))
                continue
            stage, producer, path, method = p
            if is_noncomponent(producer, nonc, stage):
                continue
            tid = 'stage%s.%s' % (stage if stage is not None else cfg['stage'], producer)
            if tid in nodeset:
                alledges.add((tid, n))
            elif tid in placeholders:
                for inst in placeholders[tid]:
                    if inst != n:
                        alledges.add((inst, n))
            else:
                out.append(('unsound:dangling-reference',
                            '%s references %s: neither a component nor a loop placeholder' % (n, r)))
    indeg = dict((n, 0) for n in nodeset)
    succ = {}
    for u, v in sorted(alledges):
        succ.setdefault(u, []).append(v)
        indeg[v] += 1
    ready = [n for n in nodeset if indeg[n] == 0]
    removed = 0
    while ready:
        n = ready.pop()
        removed += 1
        for m in succ.get(n, ()):
            indeg[m] -= 1
            if indeg[m] == 0:
                ready.append(m)
    if removed != len(nodeset):
        out.append(('unsound:cycle', 'accepted workflow has a dependency cycle among %r'
                    % sorted(n for n in nodeset if indeg[n] > 0)))
    return out


# ------------------------------------------------------------------------------------------------ hand-computed cases
def selfcheck():
    """Hand-computed cases for the model itself; returns a list of mismatches (empty = fine)."""
    bad = []

    def expect(label, got, want):
        if got != want:
            bad.append('%s: got %r, expected %r' % (label, got, want))

    def c(name, stage=0, refs=(), **kw):
        d = {'name': name, 'stage': stage, 'command': {'executable': 'e', 'arguments': ' '.join(refs)}}
        if refs:
            d['references'] = list(refs)
        d.update(kw)
        return d

    def faults(doc, platform=None, dw=None):
        return analyse({'doc': doc, 'dowhile': dw}, platform).faults()

    expect('valid chain', faults({'components': [c('A'), c('B', 0, ['A:ref']), c('C', 1, ['stage0.B:ref'])]}), [])
    expect('dangling', faults({'components': [c('A'), c('B', 0, ['AA:ref'])]}), ['dangling'])
    expect('relative name resolves in own stage only', faults({'components': [c('A'), c('B', 1, ['A:ref'])]}), ['dangling'])
    expect('reserved folder is no component', faults({'components': [c('B', 0, ['data/x:copy', '/abs/p:ref'])]}), [])
    expect('cycle 2', faults({'components': [c('A', 0, ['B:ref']), c('B', 0, ['A:ref'])]}), ['cycle'])
    expect('self loop', faults({'components': [c('A', 0, ['A:ref'])]}), ['cycle'])
    expect('duplicate', faults({'components': [c('A'), c('A')]}), ['duplicate'])
    expect('same name other stage', faults({'components': [c('A'), c('A', 1)]}), [])
    expect('unknown key', faults({'components': [c('A', comand={})]}), ['unknown-key'])
    expect('unknown nested key', faults({'components': [c('A', workflowAttributes={'replicat': 1})]}), ['unknown-key'])
    expect('user names are not keys', faults({'components': [c('A', variables={'anything': 1})],
                                              'variables': {'default': {'global': {'whatever': 1}}}}), [])
    expect('wrong type', faults({'components': [c('A', workflowAttributes={'replicate': ['x']})]}), ['wrong-type'])
    expect('var for int is fine', faults({'components': [c('A', workflowAttributes={'replicate': '%(n)s'}, variables={'n': 1})]}), [])
    expect('undefined', faults({'components': [c('A', command={'executable': 'e', 'arguments': '%(x)s'})]}), ['undefined-variable'])
    expect('indirect undefined', faults({'variables': {'default': {'global': {'a': '%(b)s'}}},
                                         'components': [c('A', command={'executable': 'e', 'arguments': '%(a)s'})]}),
           ['undefined-variable'])
    expect('platform layer defines', faults({'variables': {'p': {'global': {'x': 1}}},
                                             'components': [c('A', command={'executable': 'e', 'arguments': '%(x)s'})]}, 'p'), [])
    expect('other platform does not define', faults({'variables': {'p': {'global': {'x': 1}}},
                                                     'components': [c('A', command={'executable': 'e', 'arguments': '%(x)s'})]}),
           ['undefined-variable'])
    rep = {'workflowAttributes': {'replicate': 2}}
    expect('replica name clash', faults({'components': [c('fan', **rep), c('fan1')]}), ['duplicate'])
    expect('no replica name clash', faults({'components': [c('fan', **rep), c('fan2')]}), [])
    expect('replicas clash with replicas', faults({'components': [
        c('s', workflowAttributes={'replicate': 11}), c('s1', **rep)]}), ['duplicate'])
    ra = {'executable': 'e', 'arguments': '%(replica)s A:ref'}
    expect('replica inherited', faults({'components': [c('A', **rep), c('B', 0, ['A:ref'], command=ra)]}), [])
    expect('replica without replication', faults({'components': [c('A'), c('B', 0, ['A:ref'], command=ra)]}),
           ['undefined-variable'])
    expect('replica in an aggregating component', faults({'components': [
        c('A', **rep), c('B', 0, ['A:ref'], command=ra, workflowAttributes={'aggregate': True})]}), ['undefined-variable'])
    expect('stage prefix names a component even if a folder has the name',
           analyse({'doc': {'components': [c('x', 0, ['stage0.app:ref', 'app/bin:ref'])]}, 'dowhile': None}, None, ('app',)).faults(),
           ['dangling'])
    expect('index variable', faults({'variables': {'default': {'global': {'l': 'a b'}}},
                                     'components': [c('A', command={'executable': 'e', 'arguments': '%(l)s[%(i)s]'})]}),
           ['undefined-variable'])
    an = analyse({'doc': {'components': [c('A', override={'p': {'comand': {}}})]}, 'dowhile': None}, None)
    expect('inactive scope', (an.faults(False), an.faults(True), an.unknown[0][1]), ([], ['unknown-key'], 'inactive'))
    an = analyse({'doc': {'platforms': ['default', 'p'], 'components': [
        c('A', command={'executable': 'e', 'arguments': ['x']}, override={'p': {'command': {'arguments': 'ok'}}})]},
        'dowhile': None}, 'p')
    expect('overridden wrong value', [s for _, s in an.wrong], ['ineffective'])
    expect('type verdicts', [type_verdict(v, t) for v, t in (
        ('c11w', B), (['x'], S), (True, IV), ('3', IV), ('%(n)s', IV), ('%(n)s', B), ({'a': 1}, LS), (1.5, FV), (1, FV),
        (None, SN), (None, S), ('yes', B), (2.5, IV), (2.0, IV), (2.5, NV), (3.14, S), (2.5, B))],
        ['wrong', 'wrong', 'grey', 'grey', 'ok', 'grey', 'wrong', 'ok', 'grey', 'ok', 'grey', 'grey', 'wrong', 'grey',
         'ok', 'grey', 'grey'])
    uv = {'components': [c('A', command={'executable': 'e', 'arguments': '%(d)s'}),
                         c('B', 1, command={'executable': 'e', 'arguments': '%(d)s'})]}

    def ufaults(user):
        return analyse({'doc': uv, 'dowhile': None, 'uservars': user}, None).faults()
    expect('user variable for every stage', ufaults({'global': {'d': 1}}), [])
    expect('user variable for each stage', ufaults({'stages': {0: {'d': 1}, 1: {'d': 2}}}), [])
    expect('user variable for stage 0 only', ufaults({'stages': {0: {'d': 1}}}), ['undefined-variable'])
    expect('user variable for stage 1 only', ufaults({'stages': {1: {'d': 1}}}), ['undefined-variable'])
    ok_obs = {'nodes': ['stage0.A', 'stage0.B'], 'edges': [['stage0.A', 'stage0.B']],
              'component_ids': ['stage0.A', 'stage0.B'],
              'configs': {'stage0.A': {'references': ['data/f:copy'], 'stage': 0},
                          'stage0.B': {'references': ['stage0.A:ref'], 'stage': 0}}}
    expect('sound', soundness(ok_obs), [])
    import copy
    o = copy.deepcopy(ok_obs)
    o['configs']['stage0.A']['references'] = ['stage0.B:ref']
    expect('cycle through a reference the graph lacks', [s for s, _ in soundness(o)], ['unsound:cycle'])
    o = copy.deepcopy(ok_obs)
    o['configs']['stage0.B']['references'] = ['stage0.Z:ref']
    expect('dangling accepted', [s for s, _ in soundness(o)], ['unsound:dangling-reference'])
    o = copy.deepcopy(ok_obs)
    o['nodes'] += ['stage1.0#L', 'stage1.1#L']
    o['component_ids'] += ['stage1.0#L', 'stage1.1#L']
    o['configs']['stage1.0#L'] = {'references': [], 'stage': 1}
    o['configs']['stage1.1#L'] = {'references': ['stage1.0#L:ref'], 'stage': 1}
    o['configs']['stage0.B']['references'] = ['stage1.L:ref']
    expect('placeholder', soundness(o), [])
    o = copy.deepcopy(ok_obs)
    o['component_ids'].append('stage0.A')
    expect('duplicate ids accepted', [s for s, _ in soundness(o)], ['unsound:duplicate-ids'])
    o = copy.deepcopy(ok_obs)
    o['configs']['stage0.B'] = {'error': 'boom'}
    expect('unresolvable', [s for s, _ in soundness(o)], ['unsound:configuration-unresolvable'])
    return bad
