"""C15 reference model. Written from the property statement only; imports nothing from `experiment`.

* layering of user variable files: "layered in the order given, the last one winning"
* comparison of canonical dumps ("the same ... in every process")
"""
import itertools
import json
import re


def canon(x):
    return json.dumps(x, sort_keys=True, ensure_ascii=True, default=repr)


def skey(k):
    return k if isinstance(k, str) else str(k)


def layer(contents):
    """contents: the variable dictionaries {'global': {name: value}, 'stages': {index: {name: value}}} of the files in
    the order given. Later files win, name by name, scope by scope. Stage indexes become strings (JSON)."""
    out = {}
    for c in contents:
        if 'global' in c:
            out.setdefault('global', {})
            for k, v in c['global'].items():
                out['global'][k] = v
        if 'stages' in c:
            out.setdefault('stages', {})
            for idx, vs in c['stages'].items():
                d = out['stages'].setdefault(skey(idx), {})
                for k, v in vs.items():
                    d[k] = v
    return out


def norm_user_variables(obs):
    """What the loader reports, with stage indexes as strings and empty scopes dropped."""
    if not isinstance(obs, dict):
        return obs
    out = {}
    if isinstance(obs.get('global'), dict) and obs['global']:
        out['global'] = {skey(k): v for k, v in obs['global'].items()}
    if isinstance(obs.get('stages'), dict):
        st = {skey(i): {skey(k): v for k, v in vs.items()} for i, vs in obs['stages'].items() if vs}
        if st:
            out['stages'] = st
    extra = {k: v for k, v in obs.items() if k not in ('global', 'stages')}
    out.update(extra)
    return out


def norm_reference(ref):
    out = {}
    if ref.get('global'):
        out['global'] = dict(ref['global'])
    st = {i: dict(vs) for i, vs in ref.get('stages', {}).items() if vs}
    if st:
        out['stages'] = st
    return out


def explain(observed, contents_by_name, given):
    """Orders of the given files (as lists of names) whose layering yields `observed`."""
    obs = norm_user_variables(observed)
    out = []
    for perm in itertools.permutations(given):
        if norm_reference(layer([contents_by_name[n] for n in perm])) == obs:
            out.append(list(perm))
    return out


def winners(contents, stage):
    """name -> value a component of `stage` must see for every variable that at least one given file defines at a
    scope visible to that stage (the corpus never defines one name at both scopes)."""
    lay = layer(contents)
    out = dict(lay.get('global', {}))
    out.update(lay.get('stages', {}).get(skey(stage), {}))
    return out


def substitute(template, values):
    return re.sub(r'%\(([A-Za-z0-9_]+)\)s', lambda m: str(values[m.group(1)]), template)


# ------------------------------------------------------------------------------------------------ dump comparison
_COMP = re.compile(r'^stage\d+\.')


def first_difference(a, b, path=()):
    """None if equal, else (path, kind, a-value, b-value); kind in value|type|missing|length|order-only."""
    if type(a) != type(b) and not (isinstance(a, (int, float)) and isinstance(b, (int, float))
                                   and not isinstance(a, bool) and not isinstance(b, bool)):
        return (path, 'type', a, b)
    if isinstance(a, dict):
        for k in sorted(set(a) | set(b)):
            if k not in a or k not in b:
                return (path + (k,), 'missing', a.get(k, '<absent>'), b.get(k, '<absent>'))
            d = first_difference(a[k], b[k], path + (k,))
            if d:
                return d
        return None
    if isinstance(a, list):
        if a != b and sorted(map(canon, a)) == sorted(map(canon, b)):
            return (path, 'order-only', a, b)
        if len(a) != len(b):
            return (path, 'length', a, b)
        for i, (x, y) in enumerate(zip(a, b)):
            d = first_difference(x, y, path + (i,))
            if d:
                return d
        return None
    if a != b:
        return (path, 'value', a, b)
    return None


def area(path):
    """The part of a difference path that names *what* differs (component names and list positions removed)."""
    keep = [p for p in path if isinstance(p, str) and not _COMP.match(p)]
    return '/'.join(keep[:3]) or '.'


def short(x, n=300):
    s = canon(x)
    return s if len(s) <= n else s[:n] + '...'
