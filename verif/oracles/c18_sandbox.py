"""C18 — sandbox differ and the reference model of "where would a trusting implementation write".

Nothing here imports `experiment.*`.

Part 1 (the oracle proper): `snapshot(root)` lists a whole directory tree *physically* (lstat, symbolic links are
never followed): name, type, permission bits, size, mtime (ns), link target and a content hash for regular files.
`diff(before, after)` lists every entry that was added, removed or modified.  `outside(diff, allowed)` keeps the
entries that are not inside one of the allowed sub-trees.  The property holds for a case iff that list is empty.

Part 2 (only used to label cases and to give known-finding selectors a precise shape): `simulate_archive` follows
the member list of a tar archive the way a fully trusting extractor would (join the name to the destination, follow
links created by earlier members, `..` moves up, attributes are applied through links) on a small virtual file
system and returns the *reach* of the archive: the set of physical locations outside the destination that such an
extraction could create, overwrite or re-attribute.  `manifest_targets` does the same for manifest keys.  The model
over-approximates (it may predict a touch that an implementation avoids); it is never used to raise a failure on
its own: it only decides whether an observed escape is "explained" by the hostile names / link targets of the case,
and `archive_features` / `manifest_features` name the hostile features a case contains.
"""
import hashlib
import os
import posixpath
import stat

# ------------------------------------------------------------------------------------------------- part 1: differ

FIELDS = ('type', 'mode', 'size', 'mtime_ns', 'link', 'sha1')


def _entry(path):
    st = os.lstat(path)
    m = st.st_mode
    if stat.S_ISLNK(m):
        return {'type': 'link', 'mode': None, 'size': None, 'mtime_ns': st.st_mtime_ns, 'link': os.readlink(path),
                'sha1': None}
    if stat.S_ISDIR(m):
        return {'type': 'dir', 'mode': stat.S_IMODE(m), 'size': None, 'mtime_ns': st.st_mtime_ns, 'link': None,
                'sha1': None}
    if stat.S_ISREG(m):
        with open(path, 'rb') as f:
            h = hashlib.sha1(f.read()).hexdigest()
        return {'type': 'file', 'mode': stat.S_IMODE(m), 'size': st.st_size, 'mtime_ns': st.st_mtime_ns, 'link': None,
                'sha1': h}
    return {'type': 'other', 'mode': stat.S_IMODE(m), 'size': st.st_size, 'mtime_ns': st.st_mtime_ns, 'link': None,
            'sha1': None}


def snapshot(root):
    """{relative path: entry} for root ('.') and everything beneath it; links are listed, never followed."""
    root = os.path.abspath(root)
    out = {'.': _entry(root)}
    stack = [root]
    while stack:
        d = stack.pop()
        with os.scandir(d) as it:
            names = sorted(e.name for e in it)
        for n in names:
            p = os.path.join(d, n)
            e = _entry(p)
            out[os.path.relpath(p, root)] = e
            if e['type'] == 'dir':
                stack.append(p)
    return out


def diff(before, after):
    """Sorted list of {'path', 'change': added|removed|modified, 'fields': [...], 'before', 'after'}."""
    out = []
    for p in sorted(set(before) | set(after)):
        b, a = before.get(p), after.get(p)
        if b is None:
            out.append({'path': p, 'change': 'added', 'fields': [], 'before': None, 'after': a})
        elif a is None:
            out.append({'path': p, 'change': 'removed', 'fields': [], 'before': b, 'after': None})
        elif a != b:
            out.append({'path': p, 'change': 'modified', 'fields': [k for k in FIELDS if a[k] != b[k]],
                        'before': b, 'after': a})
    return out


def is_within(path, base):
    """path, base: normalised relative paths of a snapshot."""
    if base in ('.', ''):
        return True
    return path == base or path.startswith(base + '/')


def outside(changes, allowed, parent_mtime_ok=()):
    """The changes that are not inside any of the `allowed` sub-trees (each a relative path or a predicate).

    `parent_mtime_ok`: directories in which the operation legitimately creates its target directory itself; for
    them a change of the modification time alone is not counted (any entry added to / removed from them other than
    the target still shows up as a change of its own)."""
    res = []
    for c in changes:
        ok = c['path'] in parent_mtime_ok and c['change'] == 'modified' and c['fields'] == ['mtime_ns']
        for a in allowed:
            if (a(c['path']) if callable(a) else is_within(c['path'], a)):
                ok = True
                break
        if not ok:
            res.append(c)
    return res


def brief(changes, limit=12):
    """Compact JSON-able rendering of a change list."""
    out = []
    for c in changes[:limit]:
        d = {'path': c['path'], 'change': c['change']}
        if c['change'] == 'modified':
            d['fields'] = c['fields']
        elif c['change'] == 'added':
            d['type'] = c['after']['type']
            if c['after']['link'] is not None:
                d['link'] = c['after']['link']
        out.append(d)
    if len(changes) > limit:
        out.append({'more': len(changes) - limit})
    return out


def shape(changes):
    """A class label for a list of outside changes: what kind of damage was done."""
    kinds = set()
    for c in changes:
        if c['change'] == 'added':
            kinds.add('created')
        elif c['change'] == 'removed':
            kinds.add('removed')
        elif c['before']['type'] != c['after']['type'] or 'sha1' in c['fields'] or 'size' in c['fields'] \
                or 'link' in c['fields']:
            kinds.add('content')
        elif c['after']['type'] == 'dir' and c['fields'] == ['mtime_ns']:
            kinds.add('dir-mtime')      # by-product of creating/removing an entry in that directory, or utime
        else:
            kinds.add('attrs')
    for k in ('created', 'content', 'removed', 'attrs', 'dir-mtime'):
        if k in kinds:
            return k
    return 'none'


# ------------------------------------------------------------------------------------ part 2: trusting-writer model

def _norm(p):
    return posixpath.normpath(p)


class VFS:
    """A tiny virtual file system: absolute posix paths -> ('d',) | ('f', inode) | ('l', target)."""

    def __init__(self):
        self.nodes = {'/': ('d',)}

    def mkdirs(self, path):
        path = _norm(path)
        parts = [x for x in path.split('/') if x]
        cur = ''
        for x in parts:
            cur += '/' + x
            self.nodes.setdefault(cur, ('d',))

    def add_file(self, path):
        path = _norm(path)
        self.mkdirs(posixpath.dirname(path))
        self.nodes[path] = ('f', path)

    def resolve(self, path, follow_last, created=None, depth=0):
        """Physical location of `path`: follows links in every directory component (and in the last component
        when follow_last), `..` goes to the physical parent. Missing intermediate directories are assumed to be
        created by the writer (and reported in `created`)."""
        if depth > 20:
            return None
        assert path.startswith('/')
        parts = [x for x in path.split('/') if x and x != '.']
        cur = '/'
        for i, x in enumerate(parts):
            last = i == len(parts) - 1
            if x == '..':
                cur = posixpath.dirname(cur) or '/'
                continue
            nxt = posixpath.join(cur, x)
            node = self.nodes.get(nxt)
            if node is not None and node[0] == 'l' and (not last or follow_last):
                tgt = node[1]
                full = tgt if tgt.startswith('/') else posixpath.join(cur, tgt)
                rest = '/'.join(parts[i + 1:])
                return self.resolve(full + ('/' + rest if rest else ''), follow_last, created, depth + 1)
            if node is None and not last:
                if created is not None:
                    created.append(nxt)
            cur = nxt
        return cur


def _inside(p, base):
    return p == base or p.startswith(base.rstrip('/') + '/')


def lexically_escapes(name, base='/R'):
    """An absolute name outside `base`, or a relative one whose normal form leaves the directory it is joined to."""
    if name.startswith('/'):
        return not _inside(_norm(name), base)
    n = _norm(name)
    return n == '..' or n.startswith('../')


def member_offending(member):
    """member = {'name','kind': file|dir|sym|hard,'link'} — does its name or its link target designate something
    outside the extraction root, looking at this member alone (purely lexical)?"""
    return bool(archive_features([member]))


def archive_features(members, staged_links=()):
    """Hostile features of an archive, as a sorted string of letters:
       N a relative member name with parent-directory segments that leaves the root
       A an absolute member name
       S a symbolic-link member whose target is absolute or (relative to the link) leaves the root
       H a hard-link member whose link name leaves the root (or is absolute)
       L a member name that passes through (or is) a name that staging has already bound to a link in the
         destination (`staged_links`: names relative to the root)
       K (only when none of the above) a link chain: every member is lexically inside, but followed on disk in
         archive order (trusting-writer model, empty destination) the members reach outside the root"""
    f = set()
    for m in members:
        name = m['name']
        if name.startswith('/'):
            f.add('A')
        elif lexically_escapes(name):
            f.add('N')
        else:
            n = _norm(name)
            for sl in staged_links:
                if n == sl or n.startswith(sl + '/'):
                    f.add('L')
        if m['kind'] == 'sym':
            tgt = m['link']
            if tgt.startswith('/') or lexically_escapes(posixpath.join(posixpath.dirname(_norm(name)), tgt)):
                f.add('S')
        elif m['kind'] == 'hard':
            if m['link'].startswith('/') or lexically_escapes(m['link']):
                f.add('H')
    if not f and any(m['kind'] in ('sym', 'hard') for m in members):
        reach, _ = simulate_archive(members, '/R/s/s/s/s/wd')
        if reach.paths:
            f.add('K')
    return ''.join(sorted(f))


def manifest_features(entries):
    """entries: ordered [(key, method, ...)].  N: a relative key that leaves the instance directory; A: an absolute
    key; L: a key that passes through an earlier key deployed with method link; C: the key `conf` deployed with method
    link (deployment itself writes the workflow definition into <instance>/conf after applying the manifest); F: a
    link-method key conf/<definition file> or data/<replaced data file> (see LATER_WRITTEN_IN)."""
    f = set()
    linked = []
    for e in entries:
        key, method = e[0], e[1]
        if not key.startswith('/') and _norm(key) == 'conf' and method == 'link':
            f.add('C')
        if not key.startswith('/') and method == 'link':
            # F: a link-method entry placed INSIDE conf/ or data/ under the name of a file that deployment / instance
            # creation writes afterwards (the later write goes through the link)
            parts = _norm(key).split('/')
            if len(parts) == 2 and parts[1] in LATER_WRITTEN_IN.get(parts[0], ()):
                f.add('F')
        if key.startswith('/'):
            f.add('A')
        elif lexically_escapes(key) or _norm(key) == '.':
            f.add('N')
        else:
            n = _norm(key)
            for lk in linked:
                if n.startswith(lk + '/'):
                    f.add('L')
            if method == 'link':
                linked.append(n)
    return ''.join(sorted(f))


class Reach:
    def __init__(self, base):
        self.base = base
        self.paths = {}     # physical path outside base -> subtree?

    def touch(self, p, subtree):
        if p is not None and not _inside(p, self.base):
            self.paths[p] = self.paths.get(p, False) or subtree

    def touch_with_parent(self, p, subtree):
        self.touch(p, subtree)
        if p is not None:
            self.touch(posixpath.dirname(p), False)

    def explains(self, observed_paths):
        """Is every observed outside path a predicted location (or beneath one that covers its sub-tree)?"""
        for p in observed_paths:
            if not any(p == t or (sub and p.startswith(t.rstrip('/') + '/')) for t, sub in self.paths.items()):
                return False
        return True


def simulate_archive(members, dest, existing_files=(), existing_dirs=(), existing_links=()):
    """Follow `members` like a trusting extractor rooted at the absolute path `dest`.

    Returns (Reach, flags); flags['dangling_hardlink'] tells that some hard-link member refers to a name that does
    not exist when it is reached (such archives are malformed independently of any confinement question)."""
    v = VFS()
    v.mkdirs(dest)
    for d in existing_dirs:
        v.mkdirs(d)
    for f in existing_files:
        v.add_file(f)
    for p, t in existing_links:
        v.mkdirs(posixpath.dirname(p))
        v.nodes[_norm(p)] = ('l', t)
    reach = Reach(dest)
    flags = {'dangling_hardlink': False}

    def apply(index, name, kind, link, depth=0):
        full = name if name.startswith('/') else posixpath.join(dest, name)
        created = []
        phys_nf = v.resolve(full, False, created)
        phys_f = v.resolve(full, True, [])
        for c in created:
            reach.touch_with_parent(c, True)
            v.nodes.setdefault(c, ('d',))
        for phys in (phys_nf, phys_f):
            if phys is not None:
                node = v.nodes.get(phys)
                # an already existing directory can only get its attributes changed by the member itself
                reach.touch_with_parent(phys, not (node is not None and node[0] == 'd'))
        if phys_nf is None:
            return
        node_nf = v.nodes.get(phys_nf)
        if kind == 'file':
            node = v.nodes.get(phys_f) if phys_f is not None else None
            if node is not None and node[0] == 'f':
                reach.touch(node[1], False)           # the name may be bound (hard link) to another file
            elif node is None and phys_f is not None:
                v.nodes[phys_f] = ('f', phys_f)
        elif kind == 'dir':
            if node_nf is None:
                v.nodes[phys_nf] = ('d',)
        elif kind == 'sym':
            if node_nf is None or node_nf[0] != 'd':
                v.nodes[phys_nf] = ('l', link)
                reach.touch(v.resolve(phys_nf, True, []), False)
        elif kind == 'hard':
            lt = link if link.startswith('/') else posixpath.join(dest, link)
            src_nf = v.resolve(lt, False, [])
            src_f = v.resolve(lt, True, [])
            want = _norm(link)
            earlier = [k for k in range(index) if _norm(members[k]['name']) == want]

            def fallback():
                # a tar extractor that cannot make the link extracts the (last) earlier member of that name under
                # the new name instead, then applies the attributes of the link member through the new name
                e = members[earlier[-1]]
                apply(earlier[-1], name, e['kind'], e['link'], depth + 1)
                reach.touch(v.resolve(full, True, []), False)

            if src_f is None or v.nodes.get(src_f) is None:
                if earlier and depth < 4:
                    fallback()
                else:
                    flags['dangling_hardlink'] = True
                return
            sn = v.nodes.get(src_nf)
            if node_nf is None and sn is not None and sn[0] == 'l':
                # a hard link to a symbolic link is another name for that link (same target text, interpreted
                # from the new place): attributes go through it
                v.nodes[phys_nf] = ('l', sn[1])
                reach.touch(src_f, False)
                reach.touch(v.resolve(phys_nf, True, []), False)
            elif node_nf is None and sn is not None and sn[0] == 'f':
                v.nodes[phys_nf] = ('f', sn[1])
                reach.touch(sn[1], False)             # attributes of the shared inode are set
            elif earlier and depth < 4:
                fallback()                            # link() failed (name exists / source is a directory)

    for i, m in enumerate(members):
        apply(i, m['name'], m['kind'], m['link'])
    return reach, flags


# the files that deploying a package / creating an instance writes into <instance>/conf
DEPLOY_CONF_FILES = ('flowir_package.yaml', 'dsl.yaml', 'flowir_instance.yaml', 'manifest.yaml')
# ... and, with experimentFromPackage(data=[big.csv]), into <instance>/data
LATER_WRITTEN_IN = {'conf': DEPLOY_CONF_FILES, 'data': ('big.csv',)}


def manifest_targets(entries, inst, sources):
    """entries: ordered [(key, method, source index)]; inst: absolute path of the instance directory; sources:
    absolute paths of the sources (sources[i] is what entry i deploys; folders or files). Returns the Reach of a
    deployment that trusts the keys, including the files deployment itself writes into <instance>/conf and /data once
    the manifest has been applied: exactly those files wherever links make them land, and the mtime of a linked conf."""
    v = VFS()
    v.mkdirs(inst)
    for s in sources:
        v.mkdirs(s)
    reach = Reach(inst)
    for key, method, si in entries:
        full = key if key.startswith('/') else posixpath.join(inst, key)
        created = []
        phys = v.resolve(full, False, created)
        for c in created:
            reach.touch_with_parent(c, True)
            v.nodes.setdefault(c, ('d',))
        if phys is None:
            continue
        node = v.nodes.get(phys)
        reach.touch_with_parent(phys, not (node is not None and node[0] == 'd'))
        if node is None:
            v.nodes[phys] = ('l', sources[si]) if method == 'link' else ('d',)
    conf = v.resolve(posixpath.join(inst, 'conf'), True, [])
    if conf is not None and not _inside(conf, inst):
        reach.touch(conf, False)
    # the later writes: each goes to wherever <instance>/<folder>/<name> physically is once the manifest is applied
    for folder, names in LATER_WRITTEN_IN.items():
        for name in names:
            reach.touch_with_parent(v.resolve(posixpath.join(inst, folder, name), True, []), False)
    return reach
