"""Reference model for C17 (component environments). Written from the property statement and the docstrings of
FlowIRExperimentConfiguration.environmentForNode / environmentWithName. Does NOT import experiment.*.

Model input (plain dicts):
    launch        launch environment (os.environ of the runtime process)
    system        the runtime's own system variables
    platform      'default' or another platform name
    environments  {platform: {environment name as spelled in the package: {VAR: value}}}
    selection     None (component selects nothing) or the (already variable-substituted) string it selects
    interpreter   bool
    gvars         workflow global variables that `%(name)s` references in values resolve to

Output: Expected(kind, env, grey)
    kind  'env'            the environment must be exactly `env` (keys in `grey` are not compared for value)
          'error'          building the environment must fail
          'env-or-error'   statement and documentation disagree / are silent: either outcome is accepted
    grey  keys whose value the statement leaves open (see grey_keys); they are only leak-checked
"""
import re

DEFAULT_PLATFORM = 'default'
DEFAULTS_KEY = 'DEFAULTS'
INTERPRETER_VARS = ('PATH', 'PYTHONPATH', 'PYTHONHOME', 'LD_LIBRARY_PATH')
REF = re.compile(r'\$(?:([A-Za-z_][A-Za-z0-9_]*)|\{([A-Za-z_][A-Za-z0-9_]*)\})')
GVAR = re.compile(r'%\(([^)]+)\)s')


class Expected(object):
    def __init__(self, kind, env=None, grey=(), source=None):
        self.kind = kind
        self.env = env
        self.grey = set(grey)
        self.source = source      # where the declared part came from (for labels): none/launch/default-env/named

    def __repr__(self):
        return 'Expected(%s, %r, grey=%r, source=%s)' % (self.kind, self.env, sorted(self.grey), self.source)


def refs(value):
    return [a or b for a, b in REF.findall(value)]


def lookup(environments, platform, name):
    """The environment `name` (case-insensitive) as defined by exactly `platform`, or None."""
    hits = [v for k, v in (environments.get(platform) or {}).items() if k.lower() == name.lower()]
    if len(hits) > 1:
        raise ValueError('alphabet error: %s defined twice (case-insensitively) on %s' % (name, platform))
    return dict(hits[0]) if hits else None


def visible(environments, platform, name):
    """Selected platform's definition layered over the default platform's; None if neither defines it."""
    base = lookup(environments, DEFAULT_PLATFORM, name)
    if platform == DEFAULT_PLATFORM:
        return base
    top = lookup(environments, platform, name)
    if base is None and top is None:
        return None
    out = dict(base or {})
    out.update(top or {})
    return out


def classify_selection(selection):
    if selection is None or selection == '':
        return 'unset'
    if selection.lower() == 'none':
        return 'none'
    if selection.lower() == 'environment':
        return 'default-by-name'
    return 'named'


def import_defaults(env, launch):
    """DEFAULTS: NAME1:NAME2 imports the named launch variables. A name that the launch environment does not have is
    ignored. A name the environment declares itself keeps its declared value, with references to itself resolved
    from the launch environment (the documented `PATH: mine:$PATH` idiom)."""
    env = dict(env)
    if DEFAULTS_KEY not in env:
        return env, set()
    imported = set()
    for name in env[DEFAULTS_KEY].split(':'):
        if name not in launch:
            continue
        imported.add(name)
        if name not in env:
            env[name] = launch[name]
        else:
            env[name] = REF.sub(lambda m: launch[name] if (m.group(1) or m.group(2)) == name else m.group(0), env[name])
    del env[DEFAULTS_KEY]
    return env, imported


def grey_keys(env):
    """Keys whose expansion the statement does not pin down: a value that references its own key (and was not
    resolved by DEFAULTS), or that references a key whose own value references further keys of the environment
    (whether expansion is recursive is left open). Anything that depends on such a key is grey as well."""
    grey = set()
    for k, v in env.items():
        rs = refs(v)
        if k in rs:
            grey.add(k)
        for r in rs:
            if r in env and r != k and any(x in env for x in refs(env[r])):
                grey.add(k)
    changed = True
    while changed:
        changed = False
        for k, v in env.items():
            if k not in grey and any(r in grey for r in refs(v)):
                grey.add(k)
                changed = True
    return grey


def expand(env, launch):
    """References are expanded first from the environment itself, then from the launch environment; what neither
    defines is left as spelled."""
    def sub(table):
        def f(m):
            n = m.group(1) or m.group(2)
            return table[n] if n in table else m.group(0)
        return f
    out = {}
    for k, v in env.items():
        v1 = REF.sub(sub(env), v)
        out[k] = REF.sub(sub(launch), v1)
    return out


def fill_gvars(env, gvars):
    return {k: GVAR.sub(lambda m: gvars[m.group(1)] if m.group(1) in gvars else m.group(0), v) for k, v in env.items()}


def reachable_launch_values(key, env_raw, launch):
    """Launch values that may legitimately show up in the value of `key` (used to leak-check grey keys)."""
    seen, todo, ok = set(), [key], set()
    while todo:
        k = todo.pop()
        if k in seen:
            continue
        seen.add(k)
        if k in launch:
            ok.add(launch[k])
        if k in env_raw:
            todo.extend(refs(env_raw[k]))
            if DEFAULTS_KEY in env_raw and k in env_raw[DEFAULTS_KEY].split(':') and k in launch:
                ok.add(launch[k])
    return ok


def expected(launch, system, platform, environments, selection, interpreter, gvars=None):
    gvars = gvars or {}
    kind = classify_selection(selection)
    either = False
    if kind == 'none':
        declared, source = {}, 'none'
    elif kind in ('unset', 'default-by-name'):
        declared = visible(environments, platform, 'environment')
        source = 'default-env'
        if declared is None:
            # "the launch environment if the package defines none" is stated for a component that selects NO
            # environment. Selecting the default environment *by name* when nobody defines it: the statement's
            # named rule says error, the docstring says launch environment -> both accepted.
            declared, source = dict(launch), 'launch'
            either = kind == 'default-by-name'
    else:
        declared = visible(environments, platform, selection)
        source = 'named'
        if declared is None:
            return Expected('error', source='named')
    env = dict(system)
    env.update(declared)
    raw = dict(env)
    env, _ = import_defaults(env, launch)
    grey = grey_keys(env)
    env = expand(env, launch)
    env = fill_gvars(env, gvars)
    if interpreter:
        for n in INTERPRETER_VARS:
            if n in launch and n not in env:
                env[n] = launch[n]
    e = Expected('env-or-error' if either else 'env', env, grey, source)
    e.raw = raw
    return e


def judge(exp, obs, launch, hide=()):
    """obs: ('env', dict) | ('error', type name, message). Returns None or (kind, why).

    kinds: no-error, unexpected-error, leak, missing-key, extra-key, wrong-value, not-a-string"""
    if exp.kind == 'error':
        if obs[0] == 'error':
            return None
        return 'no-error', 'no platform defines the selected environment but an environment was built: %r' % (obs[1],)
    if obs[0] == 'error':
        if exp.kind == 'env-or-error':
            return None
        return 'unexpected-error', 'expected an environment but building it failed: %s: %s' % (obs[1], obs[2])
    got = dict(obs[1])
    got.pop(DEFAULTS_KEY, None)
    want = dict(exp.env)
    want.pop(DEFAULTS_KEY, None)
    for k, v in got.items():
        if not isinstance(k, str) or not isinstance(v, str):
            return 'not-a-string', 'variable %r has a non-string name/value %r' % (k, v)
    tokens = set(launch.values())
    problems = []
    for k in sorted(got):
        if k not in want:
            kind = 'leak' if (k in launch and got[k] == launch[k]) or any(t in got[k] for t in tokens) else 'extra-key'
            problems.append((kind, 'variable %s=%r is in the result but no declared source provides it' % (k, got[k])))
        elif k in exp.grey:
            allowed = reachable_launch_values(k, getattr(exp, 'raw', {}), launch)
            bad = [t for t in tokens if t in got[k] and not any(t in a for a in allowed)]
            if bad:
                problems.append(('leak', 'variable %s=%r contains launch-environment value(s) %r that nothing it '
                                         'references imports' % (k, got[k], sorted(bad))))
        elif got[k] != want[k]:
            leaked = [t for t in tokens if t in got[k] and t not in want[k]]
            kind = 'leak' if leaked else 'wrong-value'
            problems.append((kind, 'variable %s is %r, expected %r' % (k, got[k], want[k])))
    for k in sorted(want):
        if k not in got:
            problems.append(('missing-key', 'variable %s (expected %r) is missing from the result' % (k, want[k])))
    if not problems:
        return None
    order = ['leak', 'extra-key', 'missing-key', 'wrong-value']
    problems.sort(key=lambda p: order.index(p[0]))
    kinds = '+'.join(sorted(set(p[0] for p in problems), key=order.index))
    show = lambda d: dict((k, v) for k, v in d.items() if k not in hide)
    return kinds, '; '.join(p[1] for p in problems) + ' (expected %r, got %r)' % (show(want), show(got))
