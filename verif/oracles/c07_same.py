"""C07 oracle: when are two observations of an experiment "the same experiment"?   (no imports from `experiment`)

An *observation* is plain JSON-able data produced by verif.props.c07.observe():

    {'platform': str, 'nstages': int, 'globals': {...}, 'user_variables': {...}, 'key_outputs': {...}, 'status': {...},
     'top_level_folders': [...],
     'nodes': {name: {'conf': {...resolved configuration...}, 'env': {...} | {'!': exc},
                      'refs': {'raw': [...], 'input': [...], 'component': [...]}}},
     'edges': [[producer, consumer], ...],
     'loops': {doc id: {'iteration': k, 'condition': ..., 'condition_producer': [stage, name], 'bindings': {...},
                        'placeholders': {ref: {'represents': [...], 'latest': ref}}}}}

The statement: same set of components, each with the same resolved configuration and the same data references, hence
the same dataflow, including user variables, the selected platform and every loop iteration instantiated so far.

Normalisation rules (differences that are NOT differences of the experiment):
 R1  FLOW_RUN_ID in an environment is a fresh uuid of every Experiment object.
 R2  When an instance that was created for platform P is re-loaded under the default platform (etest/ememo do that:
     "cannot specify a platform for an instance directory") the `override` section of a component - an *input* of the
     resolution, keyed by platform name, already applied to the stored component - is not part of the resolved
     configuration; it is dropped on both sides in that mode only.
 R3  An edge from a NON-latest instance of the loop-condition producer to a consumer that has no data reference to it
     is a scheduling edge ("wait for the loop to finish") that the live graph keeps from earlier iterations
     (instantiate_dowhile_next_iteration only adds edges); it carries no data.  Such edges are ignored on both sides.
     Every edge implied by a data reference must be present on both sides.
 R4  Ordering of sets (edges, represents, top level folders) is free.
 R5  The spelling of a reference is free: `src:ref` in a stage-0 component and `stage0.src:ref` are the same reference
     (the `references` list is compared after every stage-less reference to a node/placeholder of the consumer's own
     stage got its stage prefix; the parsed form - stage, producer, file, method, targets - is compared as well).
"""
import copy
import json
import re

import yaml


def canon(obj):
    return json.dumps(obj, sort_keys=True, default=repr, ensure_ascii=True)


def jclone(obj):
    return json.loads(canon(obj))


# ---------------------------------------------------------------------------------------------- normalisation
_NODE = re.compile(r'^stage(\d+)\.(.+)$')


def absolute_reference(ref, consumer_stage, producers):
    """R5: `producer[/file]:method` written without a stage means the producer of the consumer's own stage. The live
    configuration keeps the spelling of the package for some components while the loader spells every reference
    with its stage; both denote the same (stage, producer, file, method). `producers`: set of (stage, name) of all
    nodes and loop placeholders. References whose first path element is not such a producer (data/..., input/...)
    are direct references and are left alone."""
    if not isinstance(ref, str) or re.match(r'^stage\d+\.', ref):
        return ref
    head = ref.rsplit(':', 1)[0].split('/', 1)[0]
    if (consumer_stage, head) in producers:
        return 'stage%d.%s' % (consumer_stage, ref)
    return ref


def normalise(obs, mode):
    o = jclone(obs)
    producers = set()
    for n in o['nodes']:
        m = _NODE.match(n)
        if m:
            producers.add((int(m.group(1)), m.group(2)))
    for lp in o.get('loops', {}).values():
        for p in lp['placeholders']:
            m = _NODE.match(p)
            if m:
                producers.add((int(m.group(1)), m.group(2)))
    for n, d in o['nodes'].items():
        stage = d['conf'].get('stage')
        if isinstance(d['conf'].get('references'), list):
            d['conf']['references'] = [absolute_reference(r, stage, producers) for r in d['conf']['references']]
        d['refs']['raw'] = [absolute_reference(r, stage, producers) for r in d['refs']['raw']]
        if isinstance(d.get('env'), dict):
            d['env'].pop('FLOW_RUN_ID', None)                                   # R1
        if mode == 'none':
            d['conf'].pop('override', None)                                     # R2
    o['top_level_folders'] = sorted(o.get('top_level_folders') or [])           # R4
    o['edges'] = sorted(map(list, {tuple(e) for e in o['edges']}))
    for lp in o.get('loops', {}).values():
        for ph in lp['placeholders'].values():
            ph['represents'] = sorted(ph['represents'])
    if mode == 'none':
        o.pop('platform', None)
    return o


_LOOPED = re.compile(r'^stage(\d+)\.(\d+)#(.+)$')


def data_edges(obs):
    """Edges implied by the parsed component data references (targets already expanded through placeholders)."""
    out = set()
    for n, d in obs['nodes'].items():
        for r in d['refs']['component']:
            for t in r.get('targets') or []:
                if t in obs['nodes']:
                    out.add((t, n))
    return out


def stale_condition_edges(obs):
    """R3: edges from a non-latest instance of a loop's condition producer that carry no data."""
    de = data_edges(obs)
    stale = set()
    for lp in obs.get('loops', {}).values():
        cstage, cname = lp['condition_producer']
        k = lp['iteration']
        for p, c in map(tuple, obs['edges']):
            m = _LOOPED.match(p)
            if not m:
                continue
            stage, it, name = int(m.group(1)), int(m.group(2)), m.group(3)
            # replicas of the condition producer carry a numeric suffix; the condition producer itself is matched
            # by exact name or name+digits
            if stage == cstage and (name == cname or re.fullmatch(re.escape(cname) + r'\d+', name)) and it < k \
                    and (p, c) not in de:
                stale.add((p, c))
    return stale


# ---------------------------------------------------------------------------------------------- diff
def leaf_diff(a, b, path=''):
    """Yields (dotted path, a value, b value) for every differing leaf; a missing key is reported as '<absent>'."""
    if isinstance(a, dict) and isinstance(b, dict):
        for k in sorted(set(a) | set(b)):
            p = '%s.%s' % (path, k) if path else str(k)
            if k not in a:
                yield p, '<absent>', b[k]
            elif k not in b:
                yield p, a[k], '<absent>'
            else:
                for x in leaf_diff(a[k], b[k], p):
                    yield x
    elif canon(a) != canon(b):
        yield path, a, b


def diff_observations(mem, rel):
    """mem / rel: normalised observations of the writing experiment and of the re-loaded one. -> list of diff dicts."""
    out = []
    for k in ('platform', 'nstages'):
        if canon(mem.get(k)) != canon(rel.get(k)):
            out.append({'kind': 'global', 'path': k, 'mem': mem.get(k), 'rel': rel.get(k)})
    for k in ('globals', 'user_variables', 'key_outputs', 'status', 'top_level_folders'):
        for p, x, y in leaf_diff(mem.get(k), rel.get(k), k):
            out.append({'kind': 'global', 'path': p, 'mem': x, 'rel': y})
    mn, rn = set(mem['nodes']), set(rel['nodes'])
    for n in sorted(mn - rn):
        out.append({'kind': 'node-missing', 'node': n})
    for n in sorted(rn - mn):
        out.append({'kind': 'node-extra', 'node': n})
    for n in sorted(mn & rn):
        a, b = mem['nodes'][n], rel['nodes'][n]
        for p, x, y in leaf_diff(a['conf'], b['conf']):
            out.append({'kind': 'conf', 'node': n, 'path': p, 'mem': x, 'rel': y})
        for p, x, y in leaf_diff(a['refs'], b['refs']):
            out.append({'kind': 'refs', 'node': n, 'path': p, 'mem': x, 'rel': y})
        for p, x, y in leaf_diff(a.get('env'), b.get('env')):
            out.append({'kind': 'env', 'node': n, 'path': p, 'mem': x, 'rel': y})
    em = {tuple(e) for e in mem['edges']} - stale_condition_edges(mem)
    er = {tuple(e) for e in rel['edges']} - stale_condition_edges(rel)
    for e in sorted(em - er):
        out.append({'kind': 'edge-missing', 'edge': list(e)})
    for e in sorted(er - em):
        out.append({'kind': 'edge-extra', 'edge': list(e)})
    for side, o in (('mem', mem), ('rel', rel)):
        have = {tuple(e) for e in o['edges']}
        for e in sorted(data_edges(o) - have):
            out.append({'kind': 'data-edge-not-in-graph', 'side': side, 'edge': list(e)})
    for p, x, y in leaf_diff(mem.get('loops', {}), rel.get('loops', {}), 'loops'):
        out.append({'kind': 'loop', 'path': p, 'mem': x, 'rel': y})
    return out


def split_patch_lost(diffs, pending, rel):
    """`pending`: node -> {'conf':..., 'env':...} observed just before the first not-yet-overwritten patch of that node.
    A diff is *explained by a lost patch* iff it is a conf/env diff of a patched node and the re-loaded node equals the
    pre-patch node in its entirety (the patch is simply not in the file). -> (lost, other)"""
    lost, other = [], []
    reverted = {}
    for n, before in pending.items():
        r = rel['nodes'].get(n)
        reverted[n] = r is not None and canon(r['conf']) == canon(before['conf']) and canon(r.get('env')) == canon(before.get('env'))
    for d in diffs:
        if d['kind'] in ('conf', 'env') and reverted.get(d.get('node')):
            lost.append(d)
        else:
            other.append(d)
    return lost, other


def signature(diffs):
    """A short class label of a list of diffs: kinds and (for conf) the top-level sections that differ."""
    parts = set()
    for d in diffs:
        if d['kind'] in ('conf', 'env', 'refs'):
            parts.add('%s:%s' % (d['kind'], d['path'].split('.')[0]))
        elif d['kind'] in ('global', 'loop'):
            parts.add('%s:%s' % (d['kind'], d['path'].split('.')[0]))
        else:
            parts.add(d['kind'])
    return '+'.join(sorted(parts))


# ---------------------------------------------------------------------------------------------- stored description
def _canonical_description(text):
    doc = yaml.safe_load(text)
    if isinstance(doc, dict) and isinstance(doc.get('components'), list):
        doc = copy.deepcopy(doc)
        comps = {}
        for i, c in enumerate(doc['components']):
            key = 'stage%s.%s' % (c.get('stage', 0), c.get('name')) if isinstance(c, dict) else '#%d' % i
            if key in comps:
                key = '%s#dup%d' % (key, i)
            comps[key] = c
        doc['components'] = comps
    return doc


def compare_stored(before, after):
    """before/after: {relative file name: bytes}. -> ('identical'|'reordered'|'different', details)
    `reordered`: the parsed documents are equal when the order of mapping keys and of the component list (which the
    writer takes from a set) is ignored - the description is the same, only its spelling moved."""
    if before == after:
        return 'identical', None
    details = []
    verdict = 'reordered'
    for name in sorted(set(before) | set(after)):
        a, b = before.get(name), after.get(name)
        if a == b:
            continue
        if a is None or b is None:
            verdict = 'different'
            details.append({'file': name, 'what': 'missing before' if a is None else 'missing after'})
            continue
        try:
            da, db = _canonical_description(a.decode()), _canonical_description(b.decode())
        except Exception as e:
            verdict = 'different'
            details.append({'file': name, 'what': 'unparsable: %s' % e})
            continue
        ld = list(leaf_diff(jclone(da), jclone(db)))
        if ld:
            verdict = 'different'
            details.append({'file': name, 'n_diff': len(ld),
                            'diff': [{'path': p, 'before': x, 'after': y} for p, x, y in ld[:20]]})
        else:
            details.append({'file': name, 'what': 'same document, different spelling/order'})
    return verdict, details
