"""Reference resolver for C04 (layered component configuration). Written from the property statement:

    built-in defaults  <  default platform global  <  default platform stage  <  selected platform global
    <  selected platform stage  <  user-supplied variables (global < stage)  <  component definition
    <  component override for the selected platform
    then substitute %(name)s references until none remains; undefined reference => error; typed options => type.

Input is the FlowIR document (plain dicts as a workflow author writes them) plus the user-variable dictionary
({'global': {...}, 'stages': {idx: {...}}}). Nothing here imports `experiment.*`.
"""
import re

DEFAULT = 'default'

# documented built-in defaults of the options this check looks at (FlowIR component default table)
BUILTIN = {
    'command.arguments': '',
    'command.resolvePath': True,
    'command.expandArguments': 'double-quote',
    'resourceRequest.numberProcesses': 1,
    'resourceRequest.numberThreads': 1,
    'resourceRequest.ranksPerNode': 1,
    'resourceRequest.threadsPerCore': 1,
    'resourceManager.config.backend': 'local',
    'resourceManager.config.walltime': 60.0,
    'resourceManager.lsf.queue': 'normal',
    'resourceManager.lsf.statusRequestInterval': 20.0,
    'resourceManager.kubernetes.namespace': 'default',
    'workflowAttributes.aggregate': False,
    'workflowAttributes.isMigratable': False,
    'workflowAttributes.isMigrated': False,
    'workflowAttributes.repeatRetries': 3,
    'workflowAttributes.shutdownOn': [],
    'workflowAttributes.memoization.disable.strong': False,
    'workflowAttributes.memoization.disable.fuzzy': False,
    'workflowAttributes.optimizer.disable': False,
}

# declared types ('number' = the schema admits int and float: only "is a number with this value" is judged)
TYPES = {
    'command.arguments': 'str',
    'command.executable': 'str',
    'command.resolvePath': 'bool',
    'command.expandArguments': 'str',
    'resourceRequest.numberProcesses': 'int',
    'resourceRequest.numberThreads': 'int',
    'resourceRequest.ranksPerNode': 'int',
    'resourceRequest.threadsPerCore': 'int',
    'resourceManager.config.backend': 'str',
    'resourceManager.config.walltime': 'number',
    'resourceManager.lsf.queue': 'str',
    'resourceManager.lsf.reservation': 'str',
    'resourceManager.lsf.statusRequestInterval': 'number',
    'resourceManager.kubernetes.namespace': 'str',
    'workflowAttributes.aggregate': 'bool',
    'workflowAttributes.isMigratable': 'bool',
    'workflowAttributes.isMigrated': 'bool',
    'workflowAttributes.repeatRetries': 'int',
    'workflowAttributes.shutdownOn': 'strlist',
    'workflowAttributes.memoization.disable.strong': 'bool',
    'workflowAttributes.memoization.disable.fuzzy': 'bool',
    'workflowAttributes.optimizer.disable': 'bool',
}

DEFAULT_PROBES = ('command.arguments', 'resourceRequest.numberThreads', 'resourceRequest.numberProcesses',
                  'resourceManager.lsf.queue', 'resourceManager.config.walltime', 'resourceManager.config.backend',
                  'workflowAttributes.shutdownOn', 'workflowAttributes.repeatRetries')

NOT_OPTIONS = ('name', 'stage', 'variables', 'override', 'references')
REF = re.compile(r'%\(([A-Za-z0-9_.-]+)\)s')


class Grey(Exception):
    """The input is outside what the statement decides (the generators must not produce it)."""


class Undefined(Exception):
    def __init__(self, name, where):
        Exception.__init__(self, 'reference to undefined variable %r in %s' % (name, where))
        self.name = name
        self.where = where


def leaves(section, prefix=''):
    """Flattens nested option dictionaries into {dotted.path: leaf}; lists are leaves; None means 'not defined'."""
    out = {}
    for k, v in (section or {}).items():
        if prefix == '' and k in NOT_OPTIONS:
            continue
        p = '%s.%s' % (prefix, k) if prefix else str(k)
        if isinstance(v, dict):
            out.update(leaves(v, p))
        elif v is not None:
            out[p] = v
    return out


def find_component(doc, comp_id):
    stage, name = comp_id
    for c in doc.get('components', []):
        if c.get('name') == name and int(c.get('stage', 0)) == int(stage):
            return c
    raise Grey('no component %r' % (comp_id,))


def _stage_entry(stages, idx):
    stages = stages or {}
    if idx in stages:
        return stages[idx] or {}
    if str(idx) in stages:
        return stages[str(idx)] or {}
    return {}


def variable_layers(doc, user, comp_id, platform):
    """The ordered (lowest first) list of (layer label, {name: value}) that apply to the component on the platform."""
    comp = find_component(doc, comp_id)
    stage = int(comp_id[0])
    allv = doc.get('variables') or {}
    seq = []
    dflt = allv.get(DEFAULT) or {}
    seq.append(('default-global', dflt.get('global') or {}))
    seq.append(('default-stage', _stage_entry(dflt.get('stages'), stage)))
    if platform != DEFAULT:
        pv = allv.get(platform) or {}
        seq.append(('platform-global', pv.get('global') or {}))
        seq.append(('platform-stage', _stage_entry(pv.get('stages'), stage)))
    user = user or {}
    seq.append(('user-global', user.get('global') or {}))
    seq.append(('user-stage', _stage_entry(user.get('stages'), stage)))
    seq.append(('component', comp.get('variables') or {}))
    seq.append(('component-override', ((comp.get('override') or {}).get(platform) or {}).get('variables') or {}))
    return seq


def option_layers(doc, comp_id, platform):
    comp = find_component(doc, comp_id)
    stage = int(comp_id[0])
    bp = doc.get('blueprint') or {}
    seq = [('builtin', dict(BUILTIN))]
    d = bp.get(DEFAULT) or {}
    seq.append(('default-global', leaves(d.get('global'))))
    seq.append(('default-stage', leaves(_stage_entry(d.get('stages'), stage))))
    if platform != DEFAULT:
        p = bp.get(platform) or {}
        seq.append(('platform-global', leaves(p.get('global'))))
        seq.append(('platform-stage', leaves(_stage_entry(p.get('stages'), stage))))
    seq.append(('component', leaves(comp)))
    seq.append(('component-override', leaves((comp.get('override') or {}).get(platform) or {})))
    return seq


def scalar_text(value, where):
    if isinstance(value, bool):
        return 'True' if value else 'False'       # spelling is free: only bool-typed options may consume this
    if isinstance(value, int):
        return str(value)
    if isinstance(value, float):
        if value != value or value in (float('inf'), float('-inf')):
            raise Grey('non finite float in %s' % where)
        return repr(value)
    if isinstance(value, str):
        return value
    raise Grey('variable value of unsupported type in %s: %r' % (where, value))


def substitute(text, variables, where, stack=(), used_bool=None):
    """Replaces every %(name)s by the (recursively substituted) value of `name` in the final layered variables.
    `used_bool` (a list) receives an entry when a boolean had to be written as text (its spelling is not fixed)."""
    if not isinstance(text, str):
        return text

    def rep(m):
        name = m.group(1)
        if '.' in name:
            raise Grey('dotted variable name')
        if name in stack:
            raise Grey('cyclic variable definition through %s' % name)
        if name not in variables:
            raise Undefined(name, where)
        v = variables[name]
        if isinstance(v, str):
            return substitute(v, variables, '%s > %s' % (where, name), stack + (name,), used_bool)
        if isinstance(v, bool) and used_bool is not None:
            used_bool.append(name)
        return scalar_text(v, where)

    out = REF.sub(rep, text)
    if REF.search(out):
        raise Grey('substitution constructed a new reference in %s' % where)
    if re.search(r'\[\d+\]', out) or '%(' in out:
        raise Grey('array access / stray percent in %s' % where)
    return out


def to_type(path, value):
    t = TYPES.get(path)
    if t is None:
        return value
    if t == 'str':
        if isinstance(value, str):
            return value
        raise Grey('non-string given for string option %s' % path)
    if t == 'int':
        if isinstance(value, bool):
            raise Grey('bool for int option')
        if isinstance(value, int):
            return value
        if isinstance(value, str) and re.match(r'^-?\d+$', value):
            return int(value)
        raise Grey('cannot decide int value of %r for %s' % (value, path))
    if t == 'number':
        if isinstance(value, bool):
            raise Grey('bool for number option')
        if isinstance(value, (int, float)):
            return float(value)
        if isinstance(value, str) and re.match(r'^-?\d+(\.\d+)?$', value):
            return float(value)
        raise Grey('cannot decide numeric value of %r for %s' % (value, path))
    if t == 'bool':
        if isinstance(value, bool):
            return value
        if isinstance(value, str) and value.lower() in ('true', 'false'):
            return value.lower() == 'true'
        raise Grey('cannot decide bool value of %r for %s' % (value, path))
    if t == 'strlist':
        if isinstance(value, list) and all(isinstance(x, str) for x in value):
            return value
        raise Grey('not a list of strings for %s' % path)
    raise Grey('unknown declared type %s' % t)


def tracked_paths(doc):
    """Option paths judged for this document: everything any layer defines plus a fixed set of defaults."""
    paths = set(DEFAULT_PROBES)
    for plat in (doc.get('blueprint') or {}).values():
        paths.update(leaves((plat or {}).get('global')))
        for st in ((plat or {}).get('stages') or {}).values():
            paths.update(leaves(st))
    for c in doc.get('components', []):
        paths.update(leaves(c))
        for ov in (c.get('override') or {}).values():
            paths.update(leaves(ov))
    return sorted(paths)


def resolve(doc, user, comp_id, platform, _variables=None):
    """Returns ('error', text) or ('value', {'variables': {...}, 'options': {path: value}, 'winner': {path: layer}}).
    `_variables` replaces the layered variables (only used to predict what a *known defect* would produce)."""
    variables = {}
    var_from = {}
    for label, layer in variable_layers(doc, user, comp_id, platform):
        for k, v in layer.items():
            if v is None:
                raise Grey('None valued variable')
            variables[k] = v
            var_from[k] = label
    if _variables is not None:
        variables = dict(_variables)
    options = {}
    opt_from = {}
    for label, layer in option_layers(doc, comp_id, platform):
        for k, v in layer.items():
            options[k] = v
            opt_from[k] = label
    try:
        out_vars = {}
        free_spelling = set()
        for k, v in variables.items():
            ub = []
            out_vars[k] = substitute(v, variables, 'variable %s' % k, (k,), ub) if isinstance(v, str) else v
            if ub:
                free_spelling.add(k)
        out_opts = {}
        for p in tracked_paths(doc):
            if p not in options:
                continue
            v = options[p]
            ub = []
            if isinstance(v, list):
                v = [substitute(x, variables, 'option %s' % p, (), ub) for x in v]
            else:
                v = substitute(v, variables, 'option %s' % p, (), ub)
            if ub and TYPES.get(p) != 'bool':
                raise Grey('a boolean variable is written into the non-boolean option %s' % p)
            out_opts[p] = to_type(p, v)
        # options the check does not track still must not reference undefined variables
        for p, v in options.items():
            if p in out_opts:
                continue
            for x in (v if isinstance(v, list) else [v]):
                substitute(x, variables, 'option %s' % p)
    except Undefined as e:
        return 'error', str(e)
    return 'value', {'variables': out_vars, 'options': out_opts, 'winner': opt_from, 'var_winner': var_from,
                     'free_spelling': free_spelling}


def same_value(path, expected, observed):
    """Typed comparison of one option."""
    t = TYPES.get(path)
    if t == 'number':
        return isinstance(observed, (int, float)) and not isinstance(observed, bool) and float(observed) == expected
    if t == 'strlist':
        return isinstance(observed, (list, tuple)) and list(observed) == list(expected) and \
            all(isinstance(x, str) for x in observed)
    return type(observed) is type(expected) and observed == expected


def same_variable(expected, observed, free_spelling=False):
    if free_spelling and isinstance(expected, str) and isinstance(observed, str):
        return observed.lower() == expected.lower()
    if type(observed) is type(expected):
        return observed == expected
    if isinstance(expected, bool) or isinstance(observed, bool):
        return False
    # an unreferenced number may legitimately be carried as its text
    return str(observed) == str(expected)


def definitions(doc, user, kind, key):
    """Every place of the document (applicable to the component/platform or not) that defines the variable/option."""
    out = []
    if kind == 'var':
        for plat, body in sorted((doc.get('variables') or {}).items()):
            body = body or {}
            if key in (body.get('global') or {}):
                out.append(('variables.%s.global' % plat, body['global'][key]))
            for st, sv in sorted((body.get('stages') or {}).items(), key=lambda kv: str(kv[0])):
                if key in (sv or {}):
                    out.append(('variables.%s.stages.%s' % (plat, st), sv[key]))
        if user:
            if key in (user.get('global') or {}):
                out.append(('user.global', user['global'][key]))
            for st, sv in sorted((user.get('stages') or {}).items(), key=lambda kv: str(kv[0])):
                if key in (sv or {}):
                    out.append(('user.stages.%s' % st, sv[key]))
        for c in doc.get('components', []):
            if key in (c.get('variables') or {}):
                out.append(('components.%s.variables' % c['name'], c['variables'][key]))
            for plat, ov in sorted((c.get('override') or {}).items()):
                if key in ((ov or {}).get('variables') or {}):
                    out.append(('components.%s.override.%s.variables' % (c['name'], plat), ov['variables'][key]))
    else:
        if key in BUILTIN:
            out.append(('builtin', BUILTIN[key]))
        for plat, body in sorted((doc.get('blueprint') or {}).items()):
            body = body or {}
            lv = leaves(body.get('global'))
            if key in lv:
                out.append(('blueprint.%s.global' % plat, lv[key]))
            for st, sv in sorted((body.get('stages') or {}).items(), key=lambda kv: str(kv[0])):
                lv = leaves(sv)
                if key in lv:
                    out.append(('blueprint.%s.stages.%s' % (plat, st), lv[key]))
        for c in doc.get('components', []):
            lv = leaves(c)
            if key in lv:
                out.append(('components.%s' % c['name'], lv[key]))
            for plat, ov in sorted((c.get('override') or {}).items()):
                lv = leaves(ov)
                if key in lv:
                    out.append(('components.%s.override.%s' % (c['name'], plat), lv[key]))
    return out


def explain(doc, user, comp_id, platform, kind, key, observed):
    """Names the definition(s) whose (substituted, typed) value equals what was observed; 'other' if none does."""
    variables = {}
    for _, layer in variable_layers(doc, user, comp_id, platform):
        variables.update(layer)
    hits = []
    for label, raw in definitions(doc, user, kind, key):
        try:
            if isinstance(raw, list):
                v = [substitute(x, variables, label) for x in raw]
            else:
                v = substitute(raw, variables, label)
            if kind == 'opt':
                v = to_type(key, v)
                ok = same_value(key, v, observed)
            else:
                ok = same_variable(v, observed)
        except (Grey, Undefined):
            ok = (raw == observed)
        if ok:
            hits.append(label)
    return '+'.join(hits) if hits else 'other'
