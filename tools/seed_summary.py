#!/venv/bin/python
import json, glob, os, sys
for d in sorted(glob.glob('/verif/seeded/*/meta.json')):
    m = json.load(open(d)); c = m.get('confirmed_by_lead', {})
    sid = os.path.basename(os.path.dirname(d))
    tests = (c.get('tests_tail') or '').strip().splitlines()[-1:] or ['-']
    print('%-8s demo wo/with=%s/%s tests=[%s]' % (sid, c.get('demo_without_change', {}).get('exit'), c.get('demo_with_change', {}).get('exit'), tests[0][:60]))
    for p, r in (c.get('checks') or {}).items():
        print('    %s caught=%s exit=%s %ss %s' % (p, r['caught'], r['exit'], r['wall_s'], (r['why'] or r['lines'] or [''])[0][:170]))
