#!/venv/bin/python
"""MANIFEST.setup_cmd: byte-compile the framework and run its self-tests. Offline, needs nothing but /venv."""
import compileall, os, subprocess, sys
V = os.path.dirname(os.path.dirname(os.path.abspath(__file__)))
os.environ['PYTHONWARNINGS'] = 'ignore'
ok = compileall.compile_dir(os.path.join(V, 'verif'), quiet=1, force=False)
if not ok:
    sys.exit('byte-compilation failed')
for d in ('evidence', 'replays'):
    os.makedirs(os.path.join(V, d), exist_ok=True)
st = os.path.join(V, 'selftest', 'run.py')
if os.path.exists(st):
    sys.exit(subprocess.call([sys.executable, st]))
print('setup ok')
