#!/venv/bin/python
"""Confirms a seeded change and runs a check against it.

usage: seed_eval.py <src_dir with patch.diff/demo*.py/meta.json> <seed_id> <PROP> [--tests "tests/a.py tests/b.py" | --full] [--tier quick]
Creates a scratch worktree of /repo outside /repo and /verif, applies the patch, runs the demonstration with and without the
change, runs the repository's tests with the change, runs `vcheck PROP` against the changed tree, writes
/verif/seeded/<seed_id>/{patch.diff,demo*,meta.json} and removes the worktree.
"""
import argparse, glob, json, os, shutil, subprocess, sys, time

ap = argparse.ArgumentParser()
ap.add_argument('src'); ap.add_argument('seed_id'); ap.add_argument('prop')
ap.add_argument('--tests', default='')
ap.add_argument('--full', action='store_true')
ap.add_argument('--tier', default='quick')
ap.add_argument('--jobs', default='8')
ap.add_argument('--extra-check', default='')
a = ap.parse_args()
V = '/verif'
wt = '/tmp/seedwt-%s' % a.seed_id
env = dict(os.environ, PYTHONPATH=wt + '/python', PYTHONWARNINGS='ignore')

def sh(cmd, **kw):
    return subprocess.run(cmd, shell=True, stdout=subprocess.PIPE, stderr=subprocess.STDOUT, text=True, **kw)

sh('git -C /repo worktree remove --force %s' % wt)
r = sh('git -C /repo worktree add --detach %s HEAD' % wt)
assert r.returncode == 0, r.stdout
out = {'seed_id': a.seed_id, 'property': a.prop, 'repo_head': sh('git -C /repo rev-parse --short HEAD').stdout.strip()}
try:
    demos = sorted(glob.glob(os.path.join(a.src, 'demo*.py')) + glob.glob(os.path.join(a.src, 'test_demo*.py')))
    # run the demonstration from inside the scratch worktree (some demos locate the sources relative to their own path)
    inwt = os.path.join(wt, '_seeded', 'x')
    os.makedirs(inwt, exist_ok=True)
    for d in demos:
        shutil.copy(d, inwt)
    demo = os.path.join(inwt, os.path.basename(demos[0]))
    def run_demo():
        if os.path.basename(demo).startswith('test_'):
            c = 'cd %s && /venv/bin/python -m pytest -q -p no:cacheprovider %s' % (wt, demo)
        else:
            c = 'cd %s && /venv/bin/python %s' % (wt, demo)
        t = time.time(); r = sh(c, env=env, timeout=900); return r.returncode, r.stdout[-600:], time.time() - t
    rc0, o0, _ = run_demo()
    out['demo_without_change'] = {'exit': rc0, 'tail': o0[-300:]}
    r = sh('git -C %s apply %s' % (wt, os.path.join(a.src, 'patch.diff')))
    out['patch_applies'] = r.returncode == 0
    assert r.returncode == 0, r.stdout
    rc1, o1, _ = run_demo()
    out['demo_with_change'] = {'exit': rc1, 'tail': o1[-300:]}
    tests = '' if a.full else a.tests
    if a.full or a.tests:
        c = 'cd %s && /venv/bin/python -m pytest -q -p no:cacheprovider -n %s --timeout=900 --continue-on-collection-errors %s 2>&1 | tail -12' % (wt, a.jobs, tests)
        t = time.time(); r = sh(c, env=env, timeout=7200)
        out['tests_cmd'] = c.replace(wt, '<worktree>')
        out['tests_tail'] = r.stdout[-900:]
        out['tests_wall_s'] = round(time.time() - t)
    checks = [a.prop] + [x for x in a.extra_check.split(',') if x]
    out['checks'] = {}
    for p in checks:
        t = time.time()
        r = sh('cd %s && VERIF_REPO=%s ./vcheck %s --tier %s --jobs %s' % (V, wt, p, a.tier, a.jobs), timeout=7200)
        lines = [l for l in r.stdout.splitlines() if l.startswith(('VIOLATION', 'HARNESS-ERROR', 'KNOWN-FINDING')) or ' %s: evaluations' % a.tier in l]
        why = [l.strip() for l in r.stdout.splitlines() if l.strip().startswith('why:')]
        out['checks'][p] = {'exit': r.returncode, 'caught': r.returncode == 1, 'lines': lines[:6], 'why': why[:3], 'wall_s': round(time.time() - t)}
    dst = os.path.join(V, 'seeded', a.seed_id)
    os.makedirs(dst, exist_ok=True)
    if os.path.realpath(a.src) != os.path.realpath(dst):
        shutil.copy(os.path.join(a.src, 'patch.diff'), dst)
        for d in demos:
            shutil.copy(d, dst)
    meta = {}
    mp = os.path.join(a.src, 'meta.json')
    if os.path.exists(mp):
        try:
            meta = json.load(open(mp))
        except Exception:
            meta = {'raw': open(mp).read()}
    prev = {}
    if os.path.exists(os.path.join(dst, 'meta.json')):
        try:
            prev = json.load(open(os.path.join(dst, 'meta.json'))).get('confirmed_by_lead', {})
        except Exception:
            prev = {}
    for k in ('tests_cmd', 'tests_tail', 'tests_wall_s'):
        if k not in out and k in prev:
            out[k] = prev[k]
    meta['confirmed_by_lead'] = out
    json.dump(meta, open(os.path.join(dst, 'meta.json'), 'w'), indent=1)
    print(json.dumps(out, indent=1)[:3000])
finally:
    sh('git -C /repo worktree remove --force %s' % wt)
    shutil.rmtree(wt, ignore_errors=True)
    # evidence files were rewritten by the run against the changed tree: restore the committed ones
    sh('git -C /verif checkout -- evidence')
