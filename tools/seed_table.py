#!/venv/bin/python
"""Prints the markdown detection table of DESIGN.md §8.6 from /verif/seeded/*/meta.json.

usage: seed_table.py [--design]     (--design: compact rows for DESIGN.md)"""
import json, glob, os, sys
DESIGN = '--design' in sys.argv
# seeds that the quick check of their property missed when they were first evaluated, and what was added afterwards
FIRST_MISSED = {
    'C01-t3': 'restart-from-stage-1 scenarios (restart3 workflow); memory of the first final state a producer was observed in',
    'C02-t1': 'line-level preemption in Controller.run/finishedCheck on the pair workflow',
    'C02-t2': 'line-level preemption in ComponentState.finish + stall deviation',
    'C03-s1': 'family L: two-digit replica indices (N=10..12), aggregate order',
    'C03-s2': 'replica count through one variable name defined in several scopes',
    'C04-s3': 'caught by the C08 history search (query on P, write to the default platform, same query), not by C04',
    'C05-s3': 'workflows with two and three loops under every interleaving word',
    'C06-s1': 'family prefix-names (sim / sim-post, a / aa ...)',
    'C07-s2': 'single-file packages with a manifest (copied / linked top-level folders)',
    'C08-s3': 'typed-value stratum (2 -> 2.0, 1 -> True), type-strict comparison',
    'C09-s3': 'variable / array index inside the file path',
    'C10-s1': 'family special-value (texts special to replacement machinery)',
    'C11-s1': 'mutation classes extended (see RULE of C11)', 'C11-s2': 'mutation classes extended (see RULE of C11)',
    'C11-s3': 'mutation classes extended (see RULE of C11)',
    'C14-s2': 'persistent I/O errors (per operation class / all) from every log entry',
    'C15-s2': 'mappings whose values reference sibling keys through chains of >=2 levels',
    'C16-s1': 'bases bin/binone: executables resolved through PATH with checkExecutables=True',
    'C16-s2': 'long files (4 KiB .. 1 MiB) changed at the last byte / byte 65536 / middle',
    'C17-s1': 'template dx: declared+imported variables referencing each other',
    'C19-s2': 'family weights: vectors that sum to one with 1..7 decimals, default weights for 2..8 stages',
    'C20-s1': 'C20 parts B (transition at every call position) and C (real controller probe) did not exist yet',
    'C20-s2': 'as C20-s1', 'C20-s3': 'as C20-s1',
    'C12-t1': 'empty restartHookOn in the option alphabet',
    'C12-t2': 'late restart request after the final state',
    'C12-t3': 'slow-failing restart submission of a repeating engine',
    'C13-t3': 'part B: producers that write output only at exit',
    'C01-t2': 'DoWhile of two components whose condition component outlives the looped one (first evaluation was masked by a false alarm of C02, since corrected)',
    'C01-t1': 'DoWhile with a same-stage consumer + line-level preemption in finishedCheck (first evaluation was masked by a false alarm of C02, since corrected)',
    'C01-v3': 'operator pause / wake-up scenarios with line-level preemption in wake_up and a long stall',
    'C02-v2': 'memoization scenarios (fake component database: hit / fetch fails)',
    'C02-v3': 'caught by C01 (same edit as C01-t1); C02 does not judge shut-down loop iterations',
    'C13-v1': 'part B: observer of two producers with the same name in different stages',
    'C13-v2': 'part B: cross-stage producer listed before a same-stage subject that writes only at exit',
    'C13-v3': 'part C: conformance of the virtual output listing with the real WorkingDirectory code',
    'C03-u1': 'platform dimension (count resolved on a non-default platform)', 'C03-u2': 'family F: path spellings incl. trailing separators',
    'C03-u3': 'replicate/aggregate through a component variable defined via another variable, decoys in siblings',
    'C04-u1': 'caught by C08 (read-only probes instance() / raw lookups + stage blueprints), not by C04',
    'C04-u2': 'caught by the C08 history search, not by C04',
    'C06-u3': 'family entry-override (override_entrypoint_args layered on the entrypoint arguments)',
    'C08-u1': 'interpreter component (expandArguments fix-up) in the documents', 'C08-u2': 'whole-section update of a re-added component',
    'C09-u1': 'layer hist: manifest replaced by parametrize()', 'C09-u2': 'application-dependency spellings (absolute / trailing slash)',
    'C10-u3': 'family repeating-stdout (retained stream sets of a repeating producer)',
    'C11-u2': 'user variables file as part of the mutated document set', 'C11-u3': 'non-integral float for integer options',
    'C15-u3': 'package directories readable in several formats + identified set conf.format_priority',
    'C16-u1': 'bases stdout/streams (repeating producer histories)', 'C16-u3': 'observation through ComponentState/Controller.can_memoize with an in-memory database',
    'C17-u1': 'environments that are defined but empty', 'C17-u3': 'relational oracle: all spellings of one selection behave alike',
    'C18-u1': 'link-chain archives (each link lexically inside, composition escapes)', 'C18-u3': 'links inside copied manifest folders named like files written later',
    'C01-w1': 'plain consumer of same-named producers in two stages; the reference model\'s producers count as predecessors (not only the product\'s graph)',
    'C01-w3': 'workflow chain2-zero (repeatInterval 0 on a plain consumer)',
    'C04-w2': 'caught by C08 (query-mode pass: validate() / primitive / lenient / strict queries interleaved), not by C04',
    'C04-w3': 'caught by C08 (read-only probes), not by C04',
    'C05-w1': 'topology reuse-names (same component names in several loop stages)', 'C05-w3': 'every placement of a file on binding / loopBinding / usage',
    'C06-w2': 'family variables (component variable named like a caller\'s parameter)', 'C06-w3': 'mirrored-location check under compile histories',
    'C08-w1': 'platform names with non-word characters',
    'C10-w1': 'family direct-suffix + order-aware known shapes', 'C10-w3': 'contents with CR / other bytes that text-mode reading alters',
    'C15-w3': 'components naming one producer twice; identified set flowir.expanded_references',
    'C16-w2': 'missing upstream inputs behind directory references; missing-then-present histories',
    'C17-w3': 'environment names without cased characters',
    'C19-w1': 'first evaluation ended in a transient harness error (exit 2); the end-to-end family now loads the package once',
    'C20-w3': 'part A through legacy (DOSINI) packages with many stages',
    'C01-x2': 'workflow folder-named (component called like a top-level folder, stage-qualified reference)',
    'C01-x3': 'caught by C06 (the DSL 2.0 front-end dropped the reference); the controlled-runtime workflows are FlowIR documents',
    'C04-x2': 'first evaluation ended in a harness error while the runner was being edited; caught on re-evaluation',
    'C04-x3': 'caught by C08 after configure_platform() and implicit-platform queries joined its alphabet, not by C04',
    'C10-x1': 'family whitespace (interpreter consumers, runs of blanks / TAB / LF)', 'C10-x3': 'family relative-declared (producer named through a variable)',
    'C16-x1': 'stream files whose modification times are not in index order', 'C16-x3': 'base mentions (a reference mentioned several times)',
    'C20-x2': 'legacy status sections that also name an executable',
    'C19-u1': 'family backendvar + process histories', 'C19-u2': 'families rewrite (same directory) and history (same process)',
}
rows = []
for d in sorted(glob.glob('/verif/seeded/*/meta.json')):
    m = json.load(open(d)); c = m.get('confirmed_by_lead', {})
    sid = os.path.basename(os.path.dirname(d))
    breaks = (m.get('breaks') or '').replace('|', '/').replace('\n', ' ')
    needs = (m.get('needs') or '').replace('|', '/').replace('\n', ' ')
    caught = [p for p, r in (c.get('checks') or {}).items() if r.get('caught')]
    demo = '%s/%s' % (c.get('demo_without_change', {}).get('exit'), c.get('demo_with_change', {}).get('exit'))
    tests = ((c.get('tests_tail') or '').strip().splitlines() or ['-'])[-1]
    tests = tests.split(' in ')[0]
    verdict = ('caught by ' + ', '.join(caught)) if caught else 'MISSED'
    if m.get('status'):
        st = m['status'].split(':')[0]
        if st.upper().startswith('OUTSIDE'):
            verdict = '%s — %s' % (st.lower(), verdict if caught else 'evaluated under the property it belongs to')
        else:
            verdict = 'not applicable on the current tree (%s)' % st.lower()
    if DESIGN:
        why = ''
        for p in caught:
            w = (c['checks'][p].get('why') or [''])[0].replace('why: ', '').replace('|', '/')
            why = w[:110]
            break
        rows.append('| %s | %s | %s | %s | %s |' % (sid, breaks[:170], verdict, why, FIRST_MISSED.get(sid, '')))
    else:
        rows.append('| %s | %s | %s | %s | %s | %s |' % (sid, breaks[:230], needs[:200], demo, tests, verdict))
if DESIGN:
    print('| seed | what no longer holds | quick check | first reported failure | missed at first; added |')
    print('|---|---|---|---|---|')
else:
    print('| seed | what no longer holds | needs | demo exit without/with | repo tests with the change | quick check |')
    print('|---|---|---|---|---|---|')
print('\n'.join(rows))
