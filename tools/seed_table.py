#!/venv/bin/python
"""Prints the markdown detection table of DESIGN.md §8.6 from /verif/seeded/*/meta.json."""
import json, glob, os
rows = []
for d in sorted(glob.glob('/verif/seeded/*/meta.json')):
    m = json.load(open(d)); c = m.get('confirmed_by_lead', {})
    sid = os.path.basename(os.path.dirname(d))
    breaks = (m.get('breaks') or '').replace('|', '/').replace('\n', ' ')
    needs = (m.get('needs') or '').replace('|', '/').replace('\n', ' ')
    caught = [p for p, r in (c.get('checks') or {}).items() if r.get('caught')]
    missed = [p for p, r in (c.get('checks') or {}).items() if not r.get('caught')]
    demo = '%s/%s' % (c.get('demo_without_change', {}).get('exit'), c.get('demo_with_change', {}).get('exit'))
    tests = ((c.get('tests_tail') or '').strip().splitlines() or ['-'])[-1]
    tests = tests.split(' in ')[0]
    rows.append('| %s | %s | %s | %s | %s | %s |' % (sid, breaks[:230], needs[:200], demo, tests, ('caught by ' + ', '.join(caught)) if caught else 'MISSED'))
print('| seed | what no longer holds | needs | demo exit without/with | repo tests with the change | quick check |')
print('|---|---|---|---|---|---|')
print('\n'.join(rows))
