#!/bin/bash
# Runs every quick check against /repo's working tree, one after the other, and prints a summary.
# usage: finalize.sh [seed]     (logs under /dev/shm/finalize-<seed>/)
seed=${1:-0}
out=/dev/shm/finalize-$seed; mkdir -p $out
cd /verif
rc_all=0
for i in $(seq -w 1 20); do
  p=C$i
  s=$(date +%s)
  VERIF_SEED=$seed ./vcheck $p --tier quick > $out/$p.log 2>&1
  rc=$?
  e=$(( $(date +%s) - s ))
  echo "$p exit=$rc wall=${e}s $(grep -c '^VIOLATION' $out/$p.log) violations, $(grep -c '^KNOWN-FINDING' $out/$p.log) known"
  [ $rc -ne 0 ] && rc_all=1
done
echo "overall=$rc_all"
