#!/bin/bash
# usage: eval_wave.sh <wave-dir-prefix> <suffix-letter> <prop-number>...   e.g. eval_wave.sh /tmp/mut3-c u 03 04
# Evaluates <prefix><nn>/_seeded/{1,2,3} as C<nn>-<letter>{1,2,3} with the full test-suite, one after the other.
pre=$1; let=$2; shift 2
for nn in "$@"; do
  for n in 1 2 3; do
    d=$pre$nn/_seeded/$n
    [ -f $d/patch.diff ] || continue
    /verif/tools/seed_eval.py $d C$nn-$let$n C$nn --full --jobs 6 > /tmp/eval-C$nn-$let$n.log 2>&1
  done
done
