#!/venv/bin/python
"""Regenerates /verif/MANIFEST.json from the table below and validates it against the schema."""
import json, os, sys
V = os.path.dirname(os.path.dirname(os.path.abspath(__file__)))
PY = '/venv/bin/python'

CHECKS = {
    'C01': ('model_checking', 'stateless deviation-bounded schedule exploration of the real Controller/Engine classes under a controlled scheduler (CHESS style), invariant monitor at every launch',
            'E1',
            'Implementation-level model checking: the real Controller, ComponentState, Engine, RepeatingEngine and monitor classes run under a '
            'virtual runtime that owns rx schedulers, threads, events, locks, sleeps, the clock and the task backend. ~900 (workflow x exit '
            'script x duration) scenarios over 26 workflow shapes (incl. real DoWhile loops, a restart from a later stage, operator pause/wake-up and '
            'memoization through a fake component database) are executed on '
            'the canonical fair schedule; every schedule with <=1 deviation is executed for the core scenarios (thorough: every single-fault '
            'scenario of five core workflows), every 1-deviation schedule at boundary actions for the two-fault race scenarios, and line-level preemption points with a '
            'stall deviation inside Controller.run / finishedCheck / ComponentState.finish. The launch-ordering invariant is evaluated at every '
            'task creation and every ComponentState.run(). Bounded: <=6 components, <=3 stages, deviation bound 1 (2 at boundary actions, thorough).',
            'scripted task backend/clock/output listing; scheduling points at synchronisation operations only; optimizer, hybrid, memoization off',
            'DESIGN.md §2.1, §3 C01'),
    'C02': ('model_checking', 'stateless deviation-bounded schedule exploration of the real Controller/Engine classes under a controlled scheduler, final-state oracle from an independent reference model',
            'E1',
            'Same executions as C01. After every execution: the stage loop terminated within the virtual horizon, every component of the '
            'stages that ran is in exactly one final state, and the final-state map, run() verdict and stage state equal the reference model of '
            'the documented rules (success/shutdownOn/restart budget/shutdown propagation/aggregation). Found and fixed a lost-kill-after-restart hang.',
            'same as C01; same-stage observers of shut-down subjects may end finished or shut-down (statement leaves it open)',
            'DESIGN.md §2.1, §3 C02'),
    'C11': ('exploration', 'exhaustive enumeration of every position of every single-fault mutation of 25 base workflows, judged by a reference validity model in both directions',
            'E2',
            '25 well-formed base workflows (all platforms they declare) x EVERY position of each single-fault mutation (drop component, rename producer, add cycle-closing edge, duplicate name, '
            'misspell every schema key, add unknown key, wrong type for every typed value, remove every referenced variable). A model that does not import the product classifies each '
            'mutant (valid / broken / open) before it is loaded. Accepted => expanded graph is a DAG with unique ids, resolvable references and configurations; broken => '
            'ExperimentInvalidConfigurationError within 30 s, never another exception. Three defects fixed, one recorded as a known finding.',
            'faults inside sections of platforms that are not loaded are judged (the workflow contains them); wrong types of `platforms` and `isRepeat` (recomputed values) are open',
            'DESIGN.md §3 C11'),
    'C12': ('model_checking', 'exhaustive enumeration of exit-reason x restart-hook-answer histories through the real restart path under the controlled runtime, policy monitor',
            'E1',
            'History enumeration on the implementation: for 60 (quick) / 210 (thorough) option combinations (maxRestarts, restartHookFile, '
            'restartHookOn, shutdownOn, stability answer) every exit-reason sequence of the stated prefix tree and every single restart-hook '
            'answer deviation is driven through postMortemCheck -> _restartComponent -> ComponentState.restart -> Engine.restart -> run with a '
            'real hook file; every relaunch is checked against the policy of the statement (restartable reason, budget, resubmission cap, final state); '
            'a late restart request after the final state must be refused. Repeating components (restart of the last execution, incl. a failing restart '
            'submission) run through the real controller stage loop; an external kill is injected at every scheduling step after a restart.',
            'canonical schedule only (policy is sequential per component); upper bounds only; scripted task backend and hook answers',
            'DESIGN.md §3 C12'),
    # id: (level, technique, engine, text, note, design_ref)
    'C03': ('exploration', 'exhaustive enumeration of abstract replicated DAGs x colliding names x reference spellings against an abstract-DAG replication model',
            'E2',
            'Four completely enumerated families (DAG structure x replica requests x aggregate flags x spellings; every ordered pair of names from the collision '
            'alphabet incl. the same name in two stages; non-component references next to replicated producers; several paths under one reference) are expanded by '
            'the real WorkflowGraph.graphFromFlowIR(primitive=False) and compared (node set, replica variable, parsed reference multiset, aggregate order, dangling '
            'references, resolved command line token-wise, edges) with an expander that works on the abstract DAG and never rewrites strings. Five shapes of textual-rewrite '
            'corruption are recorded as known findings.',
            'regions with different counts that meet, aggregating components that also request replicas and literal names equal to <replicated name><digits> are grey zones and excluded',
            'DESIGN.md §3 C03'),
    'C04': ('exploration', 'exhaustive enumeration of defining-layer subsets x platforms x value shapes against an independent layering resolver',
            'E2',
            'Every subset of the 11 variable scopes / 9 option layers (default, selected and other platform; global and stage; user global/stage; component; overrides) defines a '
            'layer-tagged value; chains, rebinding, competing definitions, pairs and typed options are enumerated completely; every component is observed on every platform through '
            'FlowIRConcrete.get_component_configuration and through three product entry points (primitive and replicated package loader, real instance) and compared with a resolver '
            'written from the statement (late-bound recursive substitution, undefined reference => error, declared types). Three defects fixed, one (early binding in the flattened '
            'configuration) recorded as a known finding.',
            'inside the user layer stage scope beats global scope (the statement leaves it open); bool spelling inside text, None values, cycles and override[default] are excluded',
            'DESIGN.md §3 C04'),
    'C05': ('model_checking', 'history enumeration: the real instantiate_dowhile_next_iteration is the transition function, every (shape, k) state is compared with an independent unrolling model',
            'E2',
            'For 153 (quick) / 740 (thorough) DoWhile document shapes (topologies, loop-carried bindings, import stage, binding types, replicated/aggregating looped components, '
            'colliding names, outside consumers with all methods) the real WorkflowGraph.instantiate_dowhile_next_iteration is applied k=1..12 (25 thorough) times on one live graph, '
            'optionally with a reload from the instance in between; after EVERY step the whole state (instances, references, command lines, predecessors, placeholders, loop state, '
            'DataReference.resolve of every outside spelling) is compared with a reference unrolling. The string-sorted iteration numbers defect was found and fixed.',
            'backward-stage loop-carried bindings, # in non-looped names and in-loop :loopref are grey zones and not enumerated',
            'DESIGN.md §3 C05'),
    'C06': ('exploration', 'exhaustive enumeration of nested DSL 2.0 namespaces and of every single-site fault, compared with an independent environment-passing flattener up to graph isomorphism',
            'E2',
            'Valid namespaces (chains of nested workflows with every per-link parameter mode, environments, every producer/consumer depth and reference spelling, repeated templates, '
            'hand-written multi-instance cases, odd step names) must compile to a FlowIR that has unique ids, passes FlowIRConcrete.validate() and is isomorphic (networkx, labelled nodes '
            'and edges) to the graph produced by a reference flattener that passes environments and never substitutes text. Every single-site mutation (22 operators at every site) must be '
            'rejected with DSLInvalidError/ValidationError carrying non-empty locations; a foreign exception or non-termination (ITIMER_VIRTUAL, 1.5 s CPU) is a violation. Four defects found and fixed.',
            'a path appended inside component arguments, references without a method and references that end on a workflow are grey zones (judged: proper rejection or a clean compilation)',
            'DESIGN.md §3 C06'),
    'C07': ('model_checking', 'operation-sequence search over the real mutators with a differential reload oracle and a store fixed-point check',
            'E2',
            'For 28 (quick) / 68 (thorough) packages (platform, user variable files, replication, DoWhile) every history of length <=3 over {next loop iteration with store, patch an '
            'option + store} is executed on the real Experiment; every prefix is a state judged once: the instance is reloaded with experimentFromInstance and node set, edges, '
            'every resolved configuration (type-sensitive), parsed references, environments, variables and loop state must equal the writing experiment; storing again must be a fixed point '
            '(1-3 cycles). One genuine defect (patched options are not persisted) is a known finding.',
            'FLOW_RUN_ID, stage-less reference spelling and scheduling-only edges of old loop-condition instances are normalised; behaviour of FUTURE iterations after a reload is not judged (statement speaks of iterations instantiated so far)',
            'DESIGN.md §3 C07'),
    'C08': ('model_checking', 'explicit-state breadth-first search over histories of the real mutators/queries with canonical state hashing and a from-scratch differential oracle',
            'E2',
            'Level-synchronous BFS whose transition function is the real FlowIRConcrete / FlowIRExperimentConfiguration mutator and query calls (24-25 operations) from three '
            'initial documents; states are merged on a canonical key (active platform, typed raw(), component-dictionary view, cache keys with value digests); after every transition '
            'every (component, platform) query is compared with the same query on an object built from scratch from raw(), and returned dicts are scrambled to detect shared '
            'references. Depth 3 quick (4k states, 17k transitions), depth 5 thorough (71k states, 520k transitions). One defect found and fixed.',
            'state merging is sound because the future of the object depends only on the description, the component dictionary and the cache; DoWhile documents and writes through return_copy=False references are not explored',
            'DESIGN.md §3 C08'),
    'C09': ('exploration', 'exhaustive enumeration of the reference grammar x name-set contexts against an independent classifier/printer reference model',
            'E2',
            'The full product of the reference grammar (stage prefixes x component-like names, reserved/app-dep/manifest folders, absolute paths, '
            'variables x path shapes x all 8 methods) under every context (known-component sets, manifests with nested keys, application '
            'dependencies, owner stage) is pushed through the real parse/print/expand/classify functions and, per context, through '
            'FlowIRConcrete.validate and the package loader; judged by a reference model that never imports the product. Exhaustive over the stated alphabets.',
            'contexts where a component shares its name with a folder are excluded (documented as unsupported); open references judged for idempotence only',
            'DESIGN.md §3 C09'),
    'C10': ('exploration', 'exhaustive enumeration of colliding producer-name sets x declaration orders x argument templates on instantiated experiments against a token-wise substitution model',
            'E2',
            'Every pair/triple of producer names from the collision alphabet (prefix/suffix/substring/equal across stages), every declaration order, '
            'spelling, method and wrapper is hosted as a consumer component of a real instantiated experiment and resolved by '
            'ComponentSpecification.resolveArguments(); the result must equal an independent simultaneous token-wise substitution. Exhaustive over the fixed core; '
            'quick adds one seed-rotated shard of the thorough extension. Three genuine defects are recorded as known findings.',
            'tokens are maximal [\\w./#-]+:method runs; inputs the statement leaves open (undeclared tokens, copy tokens in arguments) are excluded',
            'DESIGN.md §3 C10'),
    'C13': ('model_checking', 'stateless exploration of the real RepeatingEngine/monitor loop under the controlled runtime with the environment event placed at every scheduling point and every source line (line-level preemption)',
            'E1',
            'The real RepeatingEngine.run + CreateMonitor poll loop runs under the virtual runtime; for every combination of repeatRetries, kill delay, '
            'check-producer-output, observer task script, producer output pattern and event kind, the producers-finished notification (or an external kill '
            'followed by it) is injected at EVERY choice point of the run, including every source line of EngineTaskController/schedule_next_instance. A temporal '
            'monitor checks launch-before-output, final-output-observed and bounded termination. Part B runs observers inside the real controller stage loop '
            '(two subjects in both listing orders, producers that write only at exit, all 1-deviation schedules for the two-subject observer). '
            'One window defect was found and fixed, one is a known finding.',
            'notification delivered by calling notify_all_producers_finished(); window of 26 virtual seconds before the event, horizon 400 s after; canonical schedule otherwise',
            'DESIGN.md §3 C13'),
    'C14': ('fault_enumeration', 'exhaustive enumeration of every crash point, torn-write prefix and I/O error of the recorded write log of every update, under an unbuffered and a buffered file model',
            'E3',
            'A Python-level interposer records the numbered write log (open/write/flush/close/rename/remove) of the real writers (Status.update, OutputAgent.updateLogs, '
            'StatusMonitor.try_generate_status_details, store_unreplicated_flowir_to_disk/_generate_instance_files). For each of 4 successive updates and EVERY log entry a crash '
            '(before the entry; for data entries after none/half/all-but-one byte) and an I/O error (execution continues) are injected under two file models; afterwards the REAL '
            'loader must return the complete previous or the complete new version. Clean histories check fidelity for 17 awkward strings in every string field. '
            'Six defects found and fixed, one recorded as a known finding.',
            'rename/replace atomicity and ordering are assumed POSIX; the interposer covers the file operations the anchored writers use (checked by its self-test)',
            'DESIGN.md §2.3, §3 C14'),
    'C15': ('exploration', 'differential enumeration across child processes: every permutation of input order, key order and listing order, and every iteration order of the identified hash-ordered sets witnessed by seed search',
            'E2',
            'Child interpreters with explicit PYTHONHASHSEED load a fixed corpus (FlowIR, DSL 2.0, DOSINI packages) through three entry points and print a canonical dump (names, edges, '
            'configurations, environments, memoization hashes, instance files). Enumerated: 17 hash seeds plus a seed search until EVERY permutation of every identified set '
            '(variable files, DOSINI option names, DSL output references, active backends) has been witnessed in a real child; every ordered selection of 1-3 variable files (absolute '
            'layering oracle); every permutation of directory listings (n<=4) and of the keys of every small mapping. All dumps of a group must be identical. One defect found and fixed.',
            'sets not identified are only covered by the 17-seed sweep; order/multiplicity of error messages for rejected packages is not compared',
            'DESIGN.md §3 C15'),
    'C16': ('exploration', 'exhaustive enumeration of single-aspect (thorough: pairwise) variations of instantiated workflows, partition comparison against an independent work descriptor',
            'E2',
            'Each world is a real instantiated workflow with real files. 8 base workflows x every hash-relevant variation (executable, each argument token, each consumed byte position, '
            'method, image, producer definition/input, added/removed files) and every hash-irrelevant one (location, names, stages, unused variables, resources, times, reference order, '
            'spelling, reload from instance) plus missing-input cases and a serialisation-ambiguity alphabet. Oracle: equality of a length-prefixed canonical work descriptor <=> equality '
            'of strong hashes over ALL pairs of records; fuzzy hash bounded by two descriptors. Two defects fixed, three recorded as known findings.',
            'environments, replicas, custom embedding functions, executables given as paths and literal arguments that spell a replaced reference are grey zones and excluded',
            'DESIGN.md §3 C16'),
    'C17': ('exploration', 'exhaustive enumeration of platform x environment-definition x selection-spelling x launch-environment combinations against an independent environment model with a leak check',
            'E2',
            'Every combination of platform, package default environment shape, 7x6 named-environment layer templates, selection spelling (unset, empty, none/NONE, '
            'environment, name in three cases, via variable), interpreter flag, launch environment and system variables is resolved through '
            'WorkflowGraph.environmentForNode on primitive graphs, replicated graphs and packages loaded from disk under a controlled os.environ of unique sentinels; '
            'compared exactly with a reference model written from the statement (plus leak classification).',
            'grey zones (empty values, $$, self-referencing keys, chains of references) excluded or leak-checked only',
            'DESIGN.md §3 C17'),
    'C18': ('exploration', 'exhaustive enumeration of hostile archives / reference lists / manifests with a whole-sandbox before/after differ',
            'E2',
            'Every ordered tar archive of 1-2 members (3 in thorough; one seed-rotated 1/32 slice of the 3-member space in quick) over hostile names (.., nested .., absolute, '
            'sibling-prefix) and member types (file, directory, symlink, hard link, incl. link-then-write patterns), every list of 1-2 copy/link/copyout references over 11 fixture '
            'sources, link-then-extract combinations and every ordered manifest of 1-2 keys are staged/deployed by the real Job.stageIn / StageReference / '
            'expandPackageToDirectory / experimentFromPackage inside a deep scratch sandbox; a physical snapshot (type, mode, size, mtime, link target, sha1) of the whole '
            'sandbox before and after must differ only inside the target directory. Five escapes found and fixed.',
            'everything (victims included) lives six directory levels inside a per-run scratch directory with a guard; over-rejection of harmless inputs is not judged',
            'DESIGN.md §3 C18'),
    'C19': ('exploration', 'exhaustive enumeration of the option table derived from the FlowIR schema, differential dump/load oracle',
            'E2',
            'The option table is derived from FlowIR.type_flowir_component/default_component_structure so every expressible option of every backend is covered by construction; '
            'every option value (component / global blueprint / stage blueprint), option pairs per section, variables, environments, status/output entries and platform '
            'instances are written with Dosini.dump and loaded with Dosini.load_from_directory, and compared through FlowIRConcrete (typed structural diff). Two defects found and fixed.',
            'FlowIR-only options (podSpec, docker.*, gpus, isMigrated, ...) excluded by rule and listed in the evidence',
            'DESIGN.md §3 C19'),
    'C20': ('exploration', 'exhaustive enumeration of stage-weight grids and controller answers on the real loader and StatusMonitor',
            'E2',
            'Every weight vector of the stated grids (all compositions of 1 in hundredths for n<=3, thousandths n<=2, k/m rationals, '
            'missing/malformed at every position) is loaded by the real FlowIRConcrete; a real StatusMonitor is driven through every '
            '(current stage, finished/in-transit partition, progress in {0,.5,1}) assignment, with a stage transition of the stand-in controller '
            'at every call position of a status pass; the real Controller is probed at every choice point of controlled-runtime executions '
            '(progress in [0,1], monotone, 1 only when everything finished). Exhaustive over those finite grids; says nothing about weights outside them.',
            'tolerances 1e-6 (result) / 1e-9 (given); stand-in controller supplies per-stage progress; strings judged only at StatusMonitor level',
            'DESIGN.md §3 C20'),
}

ALL = ['C%02d' % i for i in range(1, 21)]
NOT_BUILT_REASON = 'check not built yet (work in progress; the property is decidable by bounded exhaustive exploration, see DESIGN.md §3)'

def main():
    checks = []
    for pid in ALL:
        if pid not in CHECKS:
            continue
        level, technique, engine, text, note, ref = CHECKS[pid]
        checks.append({
            'property_id': pid,
            'quick_cmd': '%s /verif/vcheck %s --tier quick' % (PY, pid),
            'thorough_cmd': '%s /verif/vcheck %s --tier thorough' % (PY, pid),
            'evidence_file': '/verif/evidence/%s.json' % pid,
            'replay_cmd_template': '%s /verif/vcheck %s --replay {path}' % (PY, pid),
            'engine': engine,
            'level_claimed': {'category': level, 'text': text, 'design_ref': ref},
            'level_note': note,
            'technique': technique,
        })
    m = {
        'version': 1,
        'setup_cmd': '%s /verif/tools/setup.py' % PY,
        'hooks': {
            'guard': 'ST4SD_RUNTIME_CORE_VERIF',
            'enable': 'none needed: checks import /repo/python directly and intercept by monkey-patching module attributes; no source hooks exist',
            'baseline_off_cmd': 'cd /repo && /venv/bin/python -m pytest -ra -q -p no:cacheprovider --timeout=900 --continue-on-collection-errors',
            'source_commits': [],
            'add_only': True,
        },
        'engines': [
            {'name': 'E1', 'path': '/verif/verif/vsched', 'serves_properties': ['C01', 'C02', 'C12', 'C13', 'C20'],
             'kind_free_text': 'controlled runtime (virtual rx schedulers/threads/events/clock) + deviation-bounded stateless schedule explorer over the real Controller/Engine classes'},
            {'name': 'E2', 'path': '/verif/verif/props', 'serves_properties': [p for p in ALL if p not in ('C01', 'C02', 'C12', 'C13', 'C14')],
             'kind_free_text': 'exhaustive enumerators of finite input/history spaces driven through the real entry points, judged by independent reference models or differential oracles'},
            {'name': 'E3', 'path': '/verif/verif/faultfs', 'serves_properties': ['C14', 'C18'],
             'kind_free_text': 'file-operation interposer enumerating every crash point / torn write / IO error of a write log; sandbox differ'},
        ],
        'checks': checks,
        'not_applicable': [{'property_id': p, 'reason': NOT_BUILT_REASON} for p in ALL if p not in CHECKS],
        'notes': 'All checks: /verif/vcheck <id> --tier quick|thorough; exit 0/1 (VIOLATION line)/2 (HARNESS-ERROR). Known findings in /verif/known_findings.json.',
    }
    import jsonschema
    schema = json.load(open(os.path.join(V, 'schemas', 'MANIFEST.schema.json')))
    jsonschema.validate(m, schema)
    with open(os.path.join(V, 'MANIFEST.json'), 'w') as f:
        json.dump(m, f, indent=1)
        f.write('\n')
    print('MANIFEST.json written: %d checks, %d not_applicable' % (len(checks), len(m['not_applicable'])))

if __name__ == '__main__':
    main()
