#!/venv/bin/python
"""Regenerates /verif/MANIFEST.json from the table below and validates it against the schema."""
import json, os, sys
V = os.path.dirname(os.path.dirname(os.path.abspath(__file__)))
PY = '/venv/bin/python'

CHECKS = {
    # id: (level, technique, engine, text, note, design_ref)
    'C20': ('exploration', 'exhaustive enumeration of stage-weight grids and controller answers on the real loader and StatusMonitor',
            'E2',
            'Every weight vector of the stated grids (all compositions of 1 in hundredths for n<=3, thousandths n<=2, k/m rationals, '
            'missing/malformed at every position) is loaded by the real FlowIRConcrete; a real StatusMonitor is driven through every '
            '(current stage, finished/in-transit partition, progress in {0,.5,1}) assignment. Exhaustive over those finite grids; says '
            'nothing about weights outside them.',
            'tolerances 1e-6 (result) / 1e-9 (given); stand-in controller supplies per-stage progress; strings judged only at StatusMonitor level',
            'DESIGN.md §3 C20'),
}

ALL = ['C%02d' % i for i in range(1, 21)]
NOT_BUILT_REASON = 'check not built yet (work in progress; the property is decidable by bounded exhaustive exploration, see DESIGN.md §3)'

def main():
    checks = []
    for pid in ALL:
        if pid not in CHECKS:
            continue
        level, technique, engine, text, note, ref = CHECKS[pid]
        checks.append({
            'property_id': pid,
            'quick_cmd': '%s /verif/vcheck %s --tier quick' % (PY, pid),
            'thorough_cmd': '%s /verif/vcheck %s --tier thorough' % (PY, pid),
            'evidence_file': '/verif/evidence/%s.json' % pid,
            'replay_cmd_template': '%s /verif/vcheck %s --replay {path}' % (PY, pid),
            'engine': engine,
            'level_claimed': {'category': level, 'text': text, 'design_ref': ref},
            'level_note': note,
            'technique': technique,
        })
    m = {
        'version': 1,
        'setup_cmd': '%s /verif/tools/setup.py' % PY,
        'hooks': {
            'guard': 'ST4SD_RUNTIME_CORE_VERIF',
            'enable': 'none needed: checks import /repo/python directly and intercept by monkey-patching module attributes; no source hooks exist',
            'baseline_off_cmd': 'cd /repo && /venv/bin/python -m pytest -ra -q -p no:cacheprovider --timeout=900 --continue-on-collection-errors',
            'source_commits': [],
            'add_only': True,
        },
        'engines': [
            {'name': 'E1', 'path': '/verif/verif/vsched', 'serves_properties': ['C01', 'C02', 'C12', 'C13'],
             'kind_free_text': 'controlled runtime (virtual rx schedulers/threads/events/clock) + deviation-bounded stateless schedule explorer over the real Controller/Engine classes'},
            {'name': 'E2', 'path': '/verif/verif/props', 'serves_properties': [p for p in ALL if p not in ('C01', 'C02', 'C12', 'C13', 'C14')],
             'kind_free_text': 'exhaustive enumerators of finite input/history spaces driven through the real entry points, judged by independent reference models or differential oracles'},
            {'name': 'E3', 'path': '/verif/verif/faultfs', 'serves_properties': ['C14', 'C18'],
             'kind_free_text': 'file-operation interposer enumerating every crash point / torn write / IO error of a write log; sandbox differ'},
        ],
        'checks': checks,
        'not_applicable': [{'property_id': p, 'reason': NOT_BUILT_REASON} for p in ALL if p not in CHECKS],
        'notes': 'All checks: /verif/vcheck <id> --tier quick|thorough; exit 0/1 (VIOLATION line)/2 (HARNESS-ERROR). Known findings in /verif/known_findings.json.',
    }
    import jsonschema
    schema = json.load(open(os.path.join(V, 'schemas', 'MANIFEST.schema.json')))
    jsonschema.validate(m, schema)
    with open(os.path.join(V, 'MANIFEST.json'), 'w') as f:
        json.dump(m, f, indent=1)
        f.write('\n')
    print('MANIFEST.json written: %d checks, %d not_applicable' % (len(checks), len(m['not_applicable'])))

if __name__ == '__main__':
    main()
