#!/venv/bin/python
"""Rewrites the block between the SEEDED-TABLE markers of DESIGN.md with the output of seed_table.py --design."""
import subprocess, re
t = subprocess.run(['/verif/tools/seed_table.py', '--design'], stdout=subprocess.PIPE, text=True).stdout
s = open('/verif/DESIGN.md').read()
a, b = '<!-- SEEDED-TABLE-BEGIN -->', '<!-- SEEDED-TABLE-END -->'
i, j = s.index(a) + len(a), s.index(b)
open('/verif/DESIGN.md', 'w').write(s[:i] + '\n' + t + s[j:])
