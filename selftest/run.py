#!/venv/bin/python
"""Self-tests of the verification machinery (run by MANIFEST.setup_cmd). Exit 0 = ok."""
import os
import sys

if os.environ.get('PYTHONHASHSEED') != '0':
    os.environ['PYTHONHASHSEED'] = '0'
    os.execv(sys.executable, [sys.executable] + sys.argv)
V = os.path.dirname(os.path.dirname(os.path.abspath(__file__)))
sys.path.insert(0, V)
from verif.core.runner import setup_repo_path, Collector, HarnessError  # noqa: E402

setup_repo_path()
import logging  # noqa: E402

logging.disable(logging.CRITICAL)
FAILED = []


def check(name, cond, detail=''):
    print('%-60s %s' % (name, 'ok' if cond else 'FAILED %s' % detail))
    if not cond:
        FAILED.append(name)


# ---- core: collectors merge, attribution happens for every failure
a, b = Collector(), Collector()
a.classifier = lambda f: 'K1' if f['sig'] == 'known-shape' else None
for i in range(1000):
    a.fail({'i': i}, 'why', None, 'known-shape')
a.fail({'i': -1}, 'other', None, 'new-shape')
a.classifier = None
b.merge(a)
check('collector: every failure attributed, none dropped', b.known_counts == {'K1': 1000} and len(b.failures) == 1 and b.n_failures == 1001)

# ---- reference model of C02 on hand-computed cases
from verif.vsched import ctl  # noqa: E402

W = ctl.workflows()
meta = W['replica-mixed'][1]
acc, unrec, failed = ctl.reference_outcome(meta, {'stage0.S0': ['KnownIssue']}, {'stage0.S0': {'shutdownOn': ['KnownIssue']}, 'stage0.S1': {'shutdownOn': ['KnownIssue']}}, {0})
check('reference: one shut-down replica does not shut the aggregator down', acc['stage0.Agg'] == {'finished'} and acc['stage0.S0'] == {'component_shutdown'} and not unrec)
acc, unrec, failed = ctl.reference_outcome(meta, {'stage0.N': ['KnownIssue']}, {'stage0.N': {'shutdownOn': ['KnownIssue']}}, {0})
check('reference: a shut-down non-replicated input shuts the aggregator and its consumer down', acc['stage0.Agg'] == {'component_shutdown'} and acc['stage0.T'] == {'component_shutdown'})
acc, unrec, failed = ctl.reference_outcome(W['chain2'][1], {'stage0.A': ['ResourceExhausted'] * 5}, {}, {0})
check('reference: 4th restartable exit exceeds the default budget of 3', unrec and failed == {'stage0.A'} and acc['stage0.B'] == {'component_shutdown'})

# ---- E1: determinism of the controlled runtime and replay of a deviating schedule
from verif.vsched import harness as h  # noqa: E402

scn = [s for s in ctl.make_scenarios('quick') if s['wf'] == 'chain2' and not s['labels'] and not s['dur']][0]
hs, meta, ms, at, st = ctl.build(scn)
x1 = h.execute(hs, [])
x2 = h.execute(hs, [])
check('E1: canonical schedule is deterministic', x1.labels == x2.labels and x1.points == x2.points and x1.result == x2.result, '%d vs %d steps' % (x1.steps, x2.steps))
check('E1: canonical chain2 finishes both components', all(f['state'] == 'finished' for f in x1.final.values()) and x1.result.get('ret') == 'done')
pos = next(i for i, n in enumerate(x1.points) if n >= 3 and i > 20)
dev = x1.choices[:pos] + [2]
y1 = h.execute(hs, dev)
y2 = h.execute(hs, dev)
check('E1: a recorded deviating schedule replays identically', y1.labels == y2.labels and y1.final == y2.final and y1.labels != x1.labels)
try:
    h.execute(hs, x1.choices[:5] + [99])
    check('E1: out-of-range choice while replaying is a hard harness error', False)
except HarnessError:
    check('E1: out-of-range choice while replaying is a hard harness error', True)
import threading  # noqa: E402
check('E1: no managed OS thread is left running an activity', all(t.name in ('MainThread', 'managed-worker') for t in threading.enumerate()))

if FAILED:
    print('SELFTEST FAILED: %s' % FAILED)
    sys.exit(1)
print('selftest ok')
